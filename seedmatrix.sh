#!/bin/bash
# usage: seedmatrix.sh [seed-dir-names...]  — runs every seeded change against the checks listed in its meta ("checks") or the
# property's own check, in a scratch worktree of /repo HEAD; appends results to seeded/RESULTS.tsv
cd /verif
names="$@"; [ -z "$names" ] && names=$(ls seeded | grep -E '^C[0-9]+-')
for n in $names; do
  d=/verif/seeded/$n; prop=${n%%-*}
  checks=$(/venv/bin/python -c "import json;m=json.load(open('$d/meta.json'));print(' '.join(m.get('checks',[m.get('property','$prop')])))")
  out=$(TIER=${TIER:-quick} ./seedtest.sh $d $checks 2>&1)
  tests=$(echo "$out" | grep -E "passed|failed" | head -1)
  dm=$(echo "$out" | grep "demo on mutated" | sed 's/.*exit //'); dc=$(echo "$out" | grep "demo on /repo" | sed 's/.*exit //')
  echo "$out" | grep "^check " | while read -r line; do
    id=$(echo $line | awk '{print $2}'); rc=$(echo $line | awk '{print $5}'); kind=$(echo "$line" | grep -oE "kind=[a-z0-9-]+" | head -1); ri=$(echo "$line" | grep -oE "run_index=[0-9]+" | head -1)
    printf "%s\t%s\t%s\tdemo_mut=%s\tdemo_head=%s\texit=%s\t%s\t%s\n" "$n" "$id" "$tests" "$dm" "$dc" "$rc" "$kind" "$ri" | tee -a ${OUT:-seeded/RESULTS.tsv}
  done
  echo "$out" | grep -q "PATCH-DOES-NOT-APPLY" && printf "%s\tPATCH-DOES-NOT-APPLY\n" "$n" | tee -a ${OUT:-seeded/RESULTS.tsv}
done

#!/bin/bash
# runs every registered quick (or $1=thorough) check against /repo and prints one line each
cd /verif
tier=${1:-quick}
for p in C01 C02 C03 C06 C07 C08 C10 C12 C14 C15 C16 C17 C18 C20; do
  out=$(./check $p --tier $tier 2>&1); rc=$?
  echo "$p exit=$rc $(echo "$out" | tail -1 | cut -c1-160)"
  echo "$out" | grep -E "VIOLATION|HARNESS" | head -3
done

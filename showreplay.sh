#!/bin/bash
# usage: showreplay.sh <replay.json>  — print the minimised spec and ops compactly
/venv/bin/python - "$1" <<'PY'
import json,sys
d=json.load(open(sys.argv[1]))
c=d['case']
for n in c.get('spec',{}).get('nodes',[]): print(json.dumps(n))
print('roots',c.get('spec',{}).get('roots'))
for op in c.get('ops',[]): print(json.dumps({k:v for k,v in op.items() if k!='mut'}))
for k in c:
    if k not in ('spec','ops','cfg'): print(k, json.dumps(c[k])[:300])
print(json.dumps(d.get('violation'))[:1500])
PY

"""Run-time side of the harness-supplied stubs.

All user callables that the generated programs hand to labrea (dataset bodies, callbacks, effects,
predicates, pipeline steps, default factories, bind functions) are deterministic pure functions of
their arguments that (1) append to the event log of the *current world*, (2) consult that world's
fault plan and (3) return an immutable value. Which world is current is a process-global set by
`World.active()`; the thread-sim keeps one world for all its threads.
"""
import hashlib


class InjectedFault(Exception):
    """Base class of all injected exceptions (carries the fault address)."""

    def __init__(self, addr):
        super().__init__(f"injected fault at {addr}")
        self.addr = addr


def _mk(base, name):
    return type(name, (InjectedFault, base), {"__module__": __name__})


class InjectedKeyError(InjectedFault, KeyError):
    pass


class InjectedValueError(InjectedFault, ValueError):
    pass


class InjectedTypeError(InjectedFault, TypeError):
    pass


class InjectedAttributeError(InjectedFault, AttributeError):
    pass


class InjectedLookupError(InjectedFault, LookupError):
    pass


class InjectedRuntimeError(InjectedFault, RuntimeError):
    pass


class InjectedStopIteration(InjectedFault, StopIteration):
    pass


class InjectedIndexError(InjectedFault, IndexError):
    pass


FAULT_CLASSES = {
    "Exception": InjectedFault,
    "KeyError": InjectedKeyError,
    "ValueError": InjectedValueError,
    "TypeError": InjectedTypeError,
    "AttributeError": InjectedAttributeError,
    "LookupError": InjectedLookupError,
    "RuntimeError": InjectedRuntimeError,
    "StopIteration": InjectedStopIteration,
    "IndexError": InjectedIndexError,
}

class InjectedUnhashableError(InjectedFault, ValueError):
    """A user exception class that defines __eq__ and therefore is not hashable (what @dataclass gives an exception)."""

    def __eq__(self, other):
        return self is other

    __hash__ = None


FAULT_CLASSES["UnhashableError"] = InjectedUnhashableError


def _more_fault_classes():
    """One injected subclass for every builtin Exception type that admits it (arbitrary exception types)."""
    import builtins

    for name, cls in sorted(vars(builtins).items()):
        if not (isinstance(cls, type) and issubclass(cls, Exception)) or issubclass(cls, Warning) or name in FAULT_CLASSES:
            continue
        if name in ("BaseExceptionGroup", "ExceptionGroup", "EnvironmentError", "IOError"):
            continue
        try:
            sub = type("Injected" + name, (InjectedFault, cls), {"__module__": __name__})
            sub(("probe",))
        except Exception:  # noqa: BLE001 — layout conflict or constructor signature: skip this type
            continue
        FAULT_CLASSES[name] = sub
        globals()["Injected" + name] = sub


_more_fault_classes()

CUR = None  # the current World


def freeze(v):
    """Immutable, hashable, order-canonical image of a value (JSON or stub result)."""
    if isinstance(v, dict):
        return ("§d",) + tuple(sorted(((str(k), freeze(x)) for k, x in v.items()), key=lambda kv: kv[0]))
    if isinstance(v, list):
        return ("§l",) + tuple(freeze(x) for x in v)
    if isinstance(v, tuple):
        return tuple(freeze(x) for x in v)
    if isinstance(v, (set, frozenset)):
        return ("§s",) + tuple(sorted((freeze(x) for x in v), key=repr))
    if v is None or isinstance(v, (str, int, float, bool, bytes)):
        return v
    fields = getattr(type(v), "__labsim_fields__", None)
    if fields is not None:
        # instance of a generated @datasetclass: its members as evaluated
        return ("§dsclass", type(v).__name__) + tuple((nm, freeze(getattr(v, nm, "§unset"))) for nm in fields)
    if callable(v):
        return ("§callable", getattr(v, "__name__", type(v).__name__))
    return ("§obj", type(v).__name__, repr(v))


def crepr(v):
    """Canonical text used to compare values (distinguishes True from 1, list from tuple)."""
    return repr(freeze(v))


class Log:
    """Append-only event log; `digest()` is the run's witness."""

    __slots__ = ("events", "seq")

    def __init__(self):
        self.events = []
        self.seq = 0

    def add(self, *ev):
        self.seq += 1
        self.events.append(ev)

    def digest(self):
        h = hashlib.sha256()
        for ev in self.events:
            h.update(repr(ev).encode())
            h.update(b"\n")
        return h.hexdigest()


def call(kind, name, **kw):
    """Entry point of every stub. Returns nothing; may raise the planned fault."""
    w = CUR
    if w is None:
        return
    w.on_call(kind, name, kw)


def body_value(name, kw):
    return (name, tuple(sorted((k, freeze(v)) for k, v in kw.items())))

"""labsim — deterministic simulation with fault injection for 8451/labrea (see /verif/DESIGN.md)."""

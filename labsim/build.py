"""spec -> live labrea objects, through the public API only.

`Program(spec, world)` builds one independent instance of the program; building twice gives two
instances that share nothing (that is how cold twins are made).  All user callables are stubs from
`rt` (see there).  Node kinds are documented in DESIGN.md 2.2 and in `gen.py`.
"""
import copy

import labrea
from labrea import (
    AllOptions,
    Coalesce,
    Map,
    Option,
    Template,
    Value,
    WithDefaultOptions,
    WithOptions,
    abstractdataset,
    cached,
    case,
    dataset,
    evaluatable_dict,
    evaluatable_list,
    evaluatable_tuple,
    pipeline_step,
    switch,
)
from labrea.application import FunctionApplication, PartialApplication
from labrea.cache import Cache, CacheGetFailure, MemoryCache

from . import rt
from .core import h64
from .rt import crepr, freeze

PROG_MODULE = "labsim_prog"


def make_fn(name, argnames, defaults, impl, posonly=0):
    """def name(a=<default0>, b=<default1>): return impl(a=a, b=b)  — a real def with real defaults.
    posonly: how many leading parameters are positional-only (def name(a=..., /, b=...))."""
    plist = [f"{a}=_d{i}" for i, a in enumerate(argnames)]
    if posonly and plist:
        plist.insert(min(posonly, len(plist)), "/")
    params = ", ".join(plist)
    passed = ", ".join(f"{a}={a}" for a in argnames)
    src = f"def {name}({params}):\n    return _impl({passed})\n"
    ns = {"_impl": impl, "__name__": PROG_MODULE}
    for i, d in enumerate(defaults):
        ns[f"_d{i}"] = d
    exec(src, ns)
    return ns[name]


def make_step_fn(name, argnames, defaults, impl):
    """def name(x, p=<default0>): return impl(x, p=p)"""
    params = ", ".join(["x"] + [f"{a}=_d{i}" for i, a in enumerate(argnames)])
    passed = ", ".join(["x"] + [f"{a}={a}" for a in argnames])
    src = f"def {name}({params}):\n    return _impl({passed})\n"
    ns = {"_impl": impl, "__name__": PROG_MODULE}
    for i, d in enumerate(defaults):
        ns[f"_d{i}"] = d
    exec(src, ns)
    return ns[name]


# ---------------------------------------------------------------- cache backends (the storage seam)
class RecordingCache(MemoryCache):
    """The real MemoryCache code path, with every backend call logged."""

    def __len__(self):
        # a SIZED backend (empty = falsy): labrea must tell "no cache given" from "an empty cache" by identity, not by truth
        return len(self.sets)

    def __init__(self, name):
        super().__init__()
        self.name = name
        self.sets = []  # (cache key bytes, value) of every store — the keys labrea really uses
        self.lookups = []  # cache key bytes of every exists()

    def get(self, evaluatable, options):
        rt.call("backend", self.name + ".get")
        return super().get(evaluatable, options)

    def set(self, evaluatable, options, value):
        rt.call("backend", self.name + ".set", v=value)
        self.sets.append((evaluatable.fingerprint(options), value))
        return super().set(evaluatable, options, value)

    def exists(self, evaluatable, options):
        rt.call("backend", self.name + ".exists")
        self.lookups.append(evaluatable.fingerprint(options))
        found = super().exists(evaluatable, options)
        rt.call("backend", self.name + (".exists=hit" if found else ".exists=miss"))
        return found

    def __repr__(self):
        return f"RecordingCache({self.name})"


class OwnStoreMemoryCache(MemoryCache):
    """A user's subclass of MemoryCache that keeps a store of its own and never calls MemoryCache.__init__ (legal: the
    Cache contract is get / set / exists)."""

    def __init__(self, name):  # noqa: super().__init__() deliberately not called
        self.name = name
        self.store = {}

    def get(self, evaluatable, options):
        key = evaluatable.fingerprint(options)
        if key not in self.store:
            raise CacheGetFailure(evaluatable, options, self)
        return copy.deepcopy(self.store[key])

    def set(self, evaluatable, options, value):
        self.store[evaluatable.fingerprint(options)] = value

    def exists(self, evaluatable, options):
        return evaluatable.fingerprint(options) in self.store


class FaultyCache(Cache):
    """A Cache that follows the contract but misbehaves at scripted call indices.

    The script lives in the world (`world.backend_script`: call index -> fault kind), the call index
    is global over all FaultyCache instances of the world.  Fault kinds (exactly those the C17
    statement lists):
      miss        exists -> False / get -> CacheGetFailure although the entry is stored
      forget      the entry is dropped for good at this call (then behaves as a miss)
      lie-exists  exists -> True although nothing is stored (the following get fails honestly)
      fail-get    get -> CacheGetFailure although the entry is stored (after exists said True)
      fail-readback  (on set) store nothing, so that the read-back get fails
    """

    def __init__(self, name):
        self.name = name
        self.store = {}

    def _fault(self, method):
        w = rt.CUR
        if w is None:
            return None
        return w.backend_fault(self.name, method)

    def get(self, evaluatable, options):
        f = self._fault("get")
        fp = evaluatable.fingerprint(options)
        if f == "fail-get-chained":
            try:
                raise OSError("stored entry is unreadable")
            except OSError as e:
                raise CacheGetFailure(evaluatable, options, self) from e
        if f in ("miss", "fail-get"):
            raise CacheGetFailure(evaluatable, options, self)
        if f == "forget":
            self.store.pop(fp, None)
        try:
            return self.store[fp]
        except KeyError as e:
            raise CacheGetFailure(evaluatable, options, self) from e

    def set(self, evaluatable, options, value):
        f = self._fault("set")
        fp = evaluatable.fingerprint(options)
        if f in ("fail-readback", "forget"):
            self.store.pop(fp, None)
            return
        self.store[fp] = value

    def exists(self, evaluatable, options):
        f = self._fault("exists")
        # (a backend need not compute labrea's fingerprint to answer — e.g. a probabilistic filter: the lie and the
        #  miss are decided before the key is looked at, so they also happen for options under which keys() fails)
        if f == "miss":
            return False
        if f == "lie-exists":
            return True
        fp = evaluatable.fingerprint(options)
        if f == "forget":
            self.store.pop(fp, None)
            return False
        return fp in self.store

    def __repr__(self):
        return f"FaultyCache({self.name})"


class FaultyCacheDefaultExists(Cache):
    """Like FaultyCache but relies on the Cache ABC's default exists() (which tries get()).  A failing get may
    chain the backend's own error (`raise CacheGetFailure(...) from OSError(...)`) — still the documented signal."""

    def __init__(self, name):
        self.name = name
        self.store = {}

    def _fault(self, method):
        w = rt.CUR
        return None if w is None else w.backend_fault(self.name, method)

    def get(self, evaluatable, options):
        f = self._fault("get")
        fp = evaluatable.fingerprint(options)
        if f == "forget":
            self.store.pop(fp, None)
        if f == "fail-get-chained":
            try:
                raise OSError("stored entry is unreadable")
            except OSError as e:
                raise CacheGetFailure(evaluatable, options, self) from e
        if f in ("miss", "fail-get"):
            raise CacheGetFailure(evaluatable, options, self)
        try:
            return self.store[fp]
        except KeyError as e:
            raise CacheGetFailure(evaluatable, options, self) from e

    def set(self, evaluatable, options, value):
        f = self._fault("set")
        fp = evaluatable.fingerprint(options)
        if f in ("fail-readback", "forget"):
            self.store.pop(fp, None)
            return
        self.store[fp] = value

    def __repr__(self):
        return f"FaultyCacheDefaultExists({self.name})"

    # a backend class written as a dataclass-like value object: it defines __eq__ and is therefore NOT hashable
    def __eq__(self, other):
        return self is other

    __hash__ = None


class FaultyFront(Cache):
    """A front (write-through tier, namespacing wrapper, ...) that delegates every call to an inner FaultyCache: the miss
    signal that reaches labrea was raised by -- and names -- the INNER cache object."""

    def __init__(self, name):
        self.name = name
        self.inner = FaultyCache(name)

    def get(self, evaluatable, options):
        return self.inner.get(evaluatable, options)

    def set(self, evaluatable, options, value):
        self.inner.set(evaluatable, options, value)

    def exists(self, evaluatable, options):
        return self.inner.exists(evaluatable, options)

    def __repr__(self):
        return f"FaultyFront({self.name})"


class FaultyMemoryCache(MemoryCache):
    """A backend built ON labrea's MemoryCache: get() and set() are inherited, exists() answers from an index of its
    own (a second tier / a listing that can be stale).  Same scripted faults; 'forget' evicts the entry from the
    inherited store while the index keeps listing it, so a later exists() says True and the inherited get() has to
    report the miss."""

    def __init__(self, name):
        super().__init__()
        self.name = name
        self.index = set()

    def _fault(self, method):
        w = rt.CUR
        return None if w is None else w.backend_fault(self.name, method)

    def _evict(self, fp):
        store = getattr(self, "_cache", None)  # (MemoryCache's own dict; private, so tolerate its absence)
        if isinstance(store, dict):
            store.pop(fp, None)
        else:
            self.index.discard(fp)

    def get(self, evaluatable, options):
        f = self._fault("get")
        if f == "fail-get-chained":
            try:
                raise OSError("stored entry is unreadable")
            except OSError as e:
                raise CacheGetFailure(evaluatable, options, self) from e
        if f in ("miss", "fail-get"):
            raise CacheGetFailure(evaluatable, options, self)
        if f == "forget":
            self._evict(evaluatable.fingerprint(options))
        return super().get(evaluatable, options)

    def set(self, evaluatable, options, value):
        f = self._fault("set")
        if f in ("fail-readback", "forget"):
            self._evict(evaluatable.fingerprint(options))
            return
        super().set(evaluatable, options, value)
        self.index.add(evaluatable.fingerprint(options))

    def exists(self, evaluatable, options):
        f = self._fault("exists")
        if f == "miss":
            return False
        if f == "lie-exists":
            return True
        fp = evaluatable.fingerprint(options)
        if f == "forget":
            self._evict(fp)
            return False
        return fp in self.index

    def __repr__(self):
        return f"FaultyMemoryCache({self.name})"


# ---------------------------------------------------------------- stubs
class UserOption(labrea.types.Evaluatable):
    """A USER-DEFINED Evaluatable (legal subclass of labrea's): reads one key like a plain Option without templates.  It keeps
    the set it answers keys() / explain() with -- callers get the very same set object every time."""

    def __init__(self, key, default=None, has_default=False, name=None):
        self.key = key
        self.default = default
        self.has_default = has_default
        self._keys = {key}
        self.name = name

    def evaluate(self, options):
        from confectioner.templating import dotted_key_exists, get_dotted_key

        if self.name is not None:
            rt.call("leaf", self.name)  # (user code: a fault can be planned here like in any other callable)
        if dotted_key_exists(self.key, options):
            return copy.deepcopy(get_dotted_key(self.key, options))
        if self.has_default:
            return copy.deepcopy(self.default)
        raise labrea.exceptions.KeyNotFoundError(self.key, self)

    def validate(self, options):
        from confectioner.templating import dotted_key_exists

        if not dotted_key_exists(self.key, options) and not self.has_default:
            raise labrea.exceptions.KeyNotFoundError(self.key, self)

    def keys(self, options):
        from confectioner.templating import dotted_key_exists

        self.validate(options)
        return self._keys if dotted_key_exists(self.key, options) else set()

    def explain(self, options=None):
        return self._keys

    def __repr__(self):
        return f"UserOption({self.key!r})"


class _KeyReaderMixin:
    """A plain helper class (NOT an Evaluatable) that brings the four methods along."""

    evaluate = UserOption.__dict__.get("__labrea_evaluate__", UserOption.__dict__["evaluate"])
    validate = UserOption.__dict__.get("__labrea_validate__", UserOption.__dict__["validate"])
    keys = UserOption.__dict__.get("__labrea_keys__", UserOption.__dict__["keys"])
    explain = UserOption.__dict__.get("__labrea_explain__", UserOption.__dict__["explain"])


class MixinUserOption(_KeyReaderMixin, labrea.types.Evaluatable):
    """class Leaf(Helper, Evaluatable): every method is inherited from a base that is not an Evaluatable."""

    def __init__(self, key, default=None, has_default=False, name=None):
        self.key = key
        self.default = default
        self.has_default = has_default
        self._keys = {key}
        self.name = name

    def __repr__(self):
        return f"MixinUserOption({self.key!r})"


class OddConstant:
    """A constant object whose deepcopy raises something other than TypeError (as a multiprocessing lock or a ctypes pointer does)."""

    def __init__(self, name, exc):
        self.name = name
        self.exc = exc

    def __deepcopy__(self, memo):
        raise {"RuntimeError": RuntimeError, "ValueError": ValueError, "RecursionError": RecursionError}[self.exc](f"{self.name} cannot be copied")

    def __repr__(self):
        return f"OddConstant({self.name})"


class PartialBodyError(ValueError):
    pass


class NoCopy:
    """Part of a body's return value that cannot be copied (a lock, an open handle, a connection)."""

    def __init__(self, name):
        self.name = name

    def __deepcopy__(self, memo):
        raise TypeError(f"cannot copy {self!r}")

    def __copy__(self):
        raise TypeError(f"cannot copy {self!r}")

    def __reduce__(self):
        raise TypeError(f"cannot pickle {self!r}")

    def __repr__(self):
        return f"<NoCopy {self.name}>"


def _body_impl(name, selector=False, mutates=(), fails_if=None, returns=None):
    if selector:

        def impl(**kw):
            rt.call("body", name, **kw)
            (v,) = kw.values()
            return v

    else:

        def impl(**kw):
            rt.call("body", name, **kw)
            if fails_if is not None and crepr(kw.get(fails_if["arg"])) == crepr(_key(fails_if["v"])):
                # a PARTIAL body: a pure function of its arguments that is undefined (raises) for one argument value
                rt.call("raise", name)
                raise PartialBodyError(f"{name} is undefined for {fails_if['arg']}={fails_if['v']!r}")
            value = rt.body_value(name, kw)
            if returns is not None and returns[0] == "uncopyable":
                value = [value, NoCopy(name)]  # a container holding something that cannot be copied
            elif returns is not None and returns[0] == "node":
                value = returns[1]  # the body hands back an Evaluatable OBJECT (a deferred job, a registry entry) as a plain value
            for a in mutates:
                # a body that works on its argument IN PLACE (sorts a list, fills in a section), as user code does
                if isinstance(kw.get(a), list):
                    kw[a].append("§mutated")
                elif isinstance(kw.get(a), dict):
                    kw[a]["§mutated"] = 1
                elif isinstance(kw.get(a), tuple):
                    for member in kw[a]:
                        if isinstance(member, list):
                            member.append("§mutated")
            return value

    return impl


def _callback(name):
    def cb(v):
        rt.call("callback", name, v=v)
        return ("cb", name, freeze(v))

    cb.__name__ = f"cb_{name}"
    return cb


class StatefulCallback:
    """A callback OBJECT with per-call state (a reusable buffer, an 'in progress' mark), as user code has: a call that
    fails half-way leaves it dirty.  labrea evaluates a fresh copy of such a callable on every evaluation (Value.evaluate
    deep-copies), so a failed evaluation cannot leak into the next one."""

    def __init__(self, name):
        self.name = name
        self.busy = False
        self.__name__ = f"cb_{name}"

    def __call__(self, v):
        if self.busy:
            raise RuntimeError(f"callback object of {self.name} was left dirty by an earlier, failed call")
        self.busy = True
        rt.call("callback", self.name, v=v)  # (fault point)
        self.busy = False
        return ("cb", self.name, freeze(v))


def _callback_step_impl(name):
    def impl(x, **kw):
        rt.call("callback", name, v=x, **kw)
        return ("cb", name, freeze(x), tuple(sorted((k, freeze(v)) for k, v in kw.items())))

    return impl


def _effect(name, i):
    def eff(v):
        rt.call("effect", f"{name}#{i}", v=v)
        return None

    eff.__name__ = f"eff_{name}_{i}"
    return eff


def _effect_step_impl(name):
    def impl(x, **kw):
        rt.call("effect", name, v=x, **kw)
        return None

    return impl


def _plain_fn(name):
    def fn(x):
        rt.call("step", name, x=x)
        return ("fn", name, freeze(x))

    fn.__name__ = name
    return fn


def _fapp_fn(name):
    def fn(*args, **kw):
        rt.call("fapp", name, args=args, **kw)
        return ("fapp", name, tuple(freeze(a) for a in args), tuple(sorted((k, freeze(v)) for k, v in kw.items())))

    fn.__name__ = name
    return fn


def _call_partial(p):
    return p("extra")


def _param_step_impl(name):
    def impl(x, **kw):
        rt.call("step", name, x=x, **kw)
        return ("step", name, freeze(x), tuple(sorted((k, freeze(v)) for k, v in kw.items())))

    return impl


def _pred_eq(name, const):
    want = crepr(const)

    def pred(v):
        rt.call("pred", name, v=v)
        return crepr(v) == want

    pred.__name__ = name
    return pred


def _pred_param_impl(name):
    def impl(x, **kw):
        rt.call("pred", name, x=x, **kw)
        (y,) = kw.values()
        return crepr(x) == crepr(y)

    return impl


def _factory(name, const):
    def factory():
        rt.call("factory", name)
        return copy.deepcopy(const)

    factory.__name__ = name
    return factory


def _dom_pred(name, allowed):
    allowed = {crepr(a) for a in allowed}

    def dom(v):
        rt.call("dompred", name, v=v)
        return crepr(v) in allowed

    dom.__name__ = name
    return dom


def materialise_map(items):
    """Consume a Map result inside the evaluation (generators never escape evaluate())."""
    return tuple((freeze(d), freeze(v)) for d, v in items)


def materialise_values(items):
    return tuple(freeze(v) for v in items)


def first_of_map(items):
    """A consumer that stops after the FIRST element of a Map's (lazy) result: the other elements are never produced."""
    for x in items:
        return ("first", freeze(x))
    return ("first", "§empty")


class Program:
    def __init__(self, spec):
        self.spec = spec
        self.obj = {}
        self.node = {}
        self.caches = {}  # dataset id -> backend object (recording / faulty)
        self.presets = []  # (owner id, role, dict object handed to labrea, canonical snapshot)
        self.interfaces = {}
        self.leaf_calls = bool(spec.get("leaf_calls"))  # user-defined leaves report their evaluations (fault points)
        for node in spec["nodes"]:
            self.add_node(node)

    # -- helpers
    def ref(self, nid):
        return self.obj[nid]

    def _preset(self, owner, role, d):
        d = copy.deepcopy(d)
        self.presets.append((owner, role, d, rt.crepr(d)))
        return d

    def mutated_presets(self):
        return [(owner, role) for owner, role, d, snap in self.presets if rt.crepr(d) != snap]

    def add_node(self, node):
        nid = node["id"]
        self.node[nid] = node
        self.obj[nid] = self._build(node)
        return self.obj[nid]

    # -- node kinds
    def _build(self, n):
        k = n["k"]
        return getattr(self, "_b_" + k)(n)

    def _b_val(self, n):
        if n.get("nocopy"):
            return Value(OddConstant(n["id"], n["nocopy"]))
        if n.get("wrap") == "tuple":
            return Value((copy.deepcopy(n["v"]),))
        return Value(copy.deepcopy(n["v"]))

    def _b_alloptions(self, n):
        return AllOptions

    def _b_opt(self, n):
        if n.get("impl") in ("user", "user_mixin"):
            d = n.get("default")
            return (UserOption if n["impl"] == "user" else MixinUserOption)(n["key"], copy.deepcopy(d["v"]) if d else None, has_default=bool(d),
                                                                              name=f"leaf_{n['id']}" if self.leaf_calls else None)
        kw = {}
        d = n.get("default") or {"t": "none"}
        t = d["t"]
        if t == "const":
            kw["default"] = copy.deepcopy(d["v"])
        elif t == "tmpl":
            kw["default"] = d["s"]
        elif t == "factory":
            kw["default_factory"] = _factory(f"fac_{n['id']}", d["v"])
        elif t == "expr":
            kw["default"] = self.ref(d["n"])
        dom = n.get("domain")
        if dom:
            if dom["t"] == "container":
                kw["domain"] = list(dom["v"])
            elif dom["t"] == "pred":
                kw["domain"] = _dom_pred(f"dom_{n['id']}", dom["v"])
            elif dom["t"] == "expr":
                kw["domain"] = self.ref(dom["n"])
        if n.get("type"):
            # a declared type: labrea issues a TypeValidationRequest for the value (the default handler accepts everything)
            kw["type"] = {"int": int, "str": str, "object": object}[n["type"]]
        return Option(n["key"], **kw)

    def _fn(self, f, owner):
        t = f["t"]
        if t == "fn":
            return _plain_fn(f["name"])
        if t == "step":
            names = sorted(f["params"])
            fn = make_step_fn(f["name"], names, [self.ref(f["params"][p]) for p in names], _param_step_impl(f["name"]))
            return pipeline_step(fn)
        if t == "pipeline":
            steps = [self._fn(s, owner) for s in f["steps"]]
            first = steps[0]
            if not isinstance(first, labrea.pipeline.PipelineStep):
                first = labrea.pipeline.PipelineStep(Value(first))
            p = first
            for s in steps[1:]:
                p = p + s
            return p
        if t == "expr":
            return self.ref(f["n"])
        if t == "lib":
            import labrea.functions as F

            from . import c20rt

            refs = {f"_r_{k}": self.ref(v) for k, v in f["refs"].items()}
            return eval(f["expr"].format(**{k: f"_r_{k}" for k in f["refs"]}), {"F": F, "_s": c20rt, **refs})
        raise ValueError(t)

    def _b_apply(self, n):
        src = self.ref(n["src"])
        fn = self._fn(n["fn"], n["id"])
        if n.get("via") == "rshift":
            return src >> fn
        return src.apply(fn)

    def _b_bind(self, n):
        table = {key: self.ref(v) for key, v in n["table"].items()}  # crepr(const) -> node
        default = self.ref(n["default"])
        name = f"bind_{n['id']}"

        def bindfn(v):
            rt.call("bindfn", name, v=v)
            return table.get(crepr(v), default)

        bindfn.__name__ = name
        return self.ref(n["src"]).bind(bindfn)

    def _b_switch(self, n):
        disp = n["dispatch"]
        disp = self.ref(disp["n"]) if isinstance(disp, dict) else disp
        lookup = {_key(c): self.ref(v) for c, v in n["lookup"]}
        if n.get("default") is not None:
            return switch(disp, lookup, self.ref(n["default"]))
        return switch(disp, lookup)

    def _b_case(self, n):
        c = case(self.ref(n["dispatch"]))
        for i, (pred, res) in enumerate(n["cases"]):
            name = f"pred_{n['id']}_{i}"
            if pred["t"] == "eq":
                cond = _pred_eq(name, pred["v"])
            elif pred["t"] == "plain":
                cond = copy.deepcopy(pred["v"])
            else:  # "param": condition is an evaluatable with an option-valued parameter
                fn = make_step_fn(name, ["y"], [self.ref(pred["n"])], _pred_param_impl(name))
                cond = pipeline_step(fn)
            c = c.when(cond, self.ref(res))
        if n.get("default") is not None:
            c = c.otherwise(self.ref(n["default"]))
        return c

    def _b_coalesce(self, n):
        return Coalesce(*[self.ref(m) for m in n["members"]])

    def _b_list(self, n):
        return evaluatable_list(*[self.ref(m) for m in n["items"]])

    def _b_tuple(self, n):
        if n.get("via") == "iter":
            return labrea.Iter(*[self.ref(m) for m in n["items"]]).apply(tuple)
        return evaluatable_tuple(*[self.ref(m) for m in n["items"]])

    def _b_dsclass(self, n):
        from labrea import datasetclass

        mixin = type(n["name"] + "Mixin", (), {nm: self.ref(m) for nm, m in n["mixin"]})
        body = {nm: self.ref(m) for nm, m in n["fields"] + n["plain"]}
        body["__annotations__"] = {nm: object for nm, _ in n["fields"]}
        names = {nm for part in ("fields", "plain", "mixin") for nm, _ in n[part]}
        bases = (mixin,)
        if n.get("base"):
            base = self.ref(n["base"])
            names |= set(base.__labsim_fields__)
            bases = (mixin, base)  # (the mixin first: its members override the base's, like the class's own)
        body["__labsim_fields__"] = sorted(names)
        return datasetclass(type(n["name"], bases, body))

    def _b_recur(self, n):
        """A RECURSIVE graph: R(a = Option(key, 0).bind(v -> base value if v <= 0 else WithOptions(R, {key: v - 1}))) -- the
        same dataset object is entered again, with other options, while its own evaluation is still in flight."""
        holder = {}
        key = n["key"]

        def step(v):
            rt.call("bindfn", f"bind_{n['id']}", v=v)
            if isinstance(v, bool) or not isinstance(v, int) or v <= 0:
                return Value(("rec-base", freeze(v)))
            return WithOptions(holder["ds"], {key: v - 1})

        step.__name__ = f"bind_{n['id']}"
        arg = Option(key, 0).bind(step)
        fn = make_fn(n["name"], ["a"], [arg], _body_impl(n["name"]))
        ds = dataset.nocache(fn) if n.get("cache") == "nocache" else dataset(fn)
        holder["ds"] = ds
        return ds

    def _b_fapp(self, n):
        f = n["func"]
        if f["t"] == "fn":
            func = _fapp_fn(f["name"])
        else:
            a, b = _fapp_fn(f["names"][0]), _fapp_fn(f["names"][1])
            first = {crepr(c) for c in f["first"]}

            def pick(v):
                return a if crepr(v) in first else b

            pick.__name__ = f"pick_{n['id']}"
            func = self.ref(f["n"]).apply(pick)  # an Evaluatable in the FUNCTION position
        pos = [self.ref(p["n"]) if "n" in p else copy.deepcopy(p["v"]) for p in n["pos"]]
        kw = {key: self.ref(v) for key, v in n["kw"].items()}
        if n["form"] == "partial":
            return PartialApplication(func, *pos, **kw).apply(_call_partial)
        return FunctionApplication(func, *pos, **kw)

    def _b_namespace(self, n):
        body, ann = {}, {}
        for m in n["members"]:
            if m["t"] == "annot":
                ann[m["name"]] = str
            elif m["t"] == "const":
                body[m["name"]] = copy.deepcopy(m["v"])
            elif m["t"] == "sub":
                body[m["name"]] = type(m["name"], (), {"X": copy.deepcopy(m["v"])})
            elif m["t"] == "auto":
                body[m["name"]] = Option.auto(copy.deepcopy(m["v"]), doc="a member declared with Option.auto")
            elif m["t"] == "expr":
                body[m["name"]] = self.ref(m["n"])  # (an Evaluatable as a member's default)
        body["__annotations__"] = ann
        return Option.namespace(type(n["name"], (), body))

    def _b_dict(self, n):
        return evaluatable_dict({key: self.ref(m) for key, m in n["items"]})

    def _b_map(self, n):
        m = Map(self.ref(n["target"]), {key: self.ref(v) for key, v in n["iterables"].items()})
        if n.get("consume") == "first":
            return (m.values if n.get("values") else m).apply(first_of_map)
        if n.get("values"):
            return m.values.apply(materialise_values)
        return m.apply(materialise_map)

    def _b_template(self, n):
        return Template(n["text"], **{p: self.ref(v) for p, v in n.get("params", {}).items()})

    def _b_withopts(self, n):
        inner = self.ref(n["inner"])
        opts = self._preset(n["id"], "withopts", n["options"])
        if n.get("force", True):
            return WithOptions(inner, opts)
        return WithDefaultOptions(inner, opts)

    def _b_cached(self, n):
        return cached(self.ref(n["inner"]))

    def _b_dataset(self, n):
        name = n["name"]
        argnames = list(n.get("args", {}))
        fn = make_fn(name, argnames, [self.ref(n["args"][a]) for a in argnames], _body_impl(name, n.get("body") == "selector", tuple(n.get("mutates", ())), n.get("fails_if"),
                                                                                               returns=self._returns(n)), posonly=n.get("posonly", 0))
        kw = {}
        disp = n.get("dispatch")
        if disp is not None:
            kw["dispatch"] = self.ref(disp["n"]) if isinstance(disp, dict) else disp
        if n.get("options"):
            kw["options"] = self._preset(n["id"], "options", n["options"])
        if n.get("default_options"):
            kw["default_options"] = self._preset(n["id"], "default_options", n["default_options"])
        if n.get("callback") and n.get("callback_opt"):
            cfn = make_step_fn(f"cb_{name}", ["p"], [self.ref(n["callback_opt"])], _callback_step_impl(name))
            kw["callback"] = pipeline_step(cfn)
        elif n.get("callback") == "stateful":
            kw["callback"] = StatefulCallback(name)
        elif n.get("callback"):
            kw["callback"] = _callback(name)
        if n.get("effects") or n.get("effects_opt"):
            kw["effects"] = [_effect(name, i) for i in range(n.get("effects", 0))]
            for j, pn in enumerate(n.get("effects_opt", [])):
                # an effect that is an Evaluatable with an option-valued parameter (e.g. an audit step reading a tag)
                efn = make_step_fn(f"eff_{name}_o{j}", ["p"], [self.ref(pn)], _effect_step_impl(f"{name}#o{j}"))
                kw["effects"].append(pipeline_step(efn))
        for j, level in enumerate(n.get("log_effects", [])):
            # labrea's own LogEffect (a log request at WARNING / ERROR level issued as an effect of the dataset)
            import labrea.logging as _ll

            kw.setdefault("effects", []).append(_ll.LogEffect(level, PROG_MODULE, f"log-effect {name}#{j}"))
        ck = n.get("cache", "default")
        factory = abstractdataset if n.get("abstract") else dataset
        if ck == "nocache":
            factory = factory.nocache
        elif ck == "recording":
            kw["cache"] = self.caches[n["id"]] = RecordingCache(name)
        elif ck == "own_store":
            kw["cache"] = self.caches[n["id"]] = OwnStoreMemoryCache(name)
        elif ck == "faulty":
            kw["cache"] = self.caches[n["id"]] = FaultyCache(name)
        elif ck == "faulty_ne":
            kw["cache"] = self.caches[n["id"]] = FaultyCacheDefaultExists(name)
        elif ck == "faulty_mc":
            kw["cache"] = self.caches[n["id"]] = FaultyMemoryCache(name)
        elif ck == "faulty_front":
            kw["cache"] = self.caches[n["id"]] = FaultyFront(name)
        elif ck == "shared_factory":
            # ONE configured factory reused for several definitions: memo = dataset(cache=MemoryCache) -- the cache is given
            # as a class (a callable), so every dataset made by the factory gets an instance of its own
            if not hasattr(self, "_shared_factory"):
                self._shared_factory = {}
            key = bool(n.get("abstract"))
            if key not in self._shared_factory:
                self._shared_factory[key] = factory(cache=MemoryCache)
            factory = self._shared_factory[key]
        if n.get("family_factory") and not n.get("abstract") and ck in ("default", "recording", "nocache"):
            # a concrete member of a family whose shared factory is abstract: source = abstractdataset(...); source(abstract=False)(fn)
            factory = (abstractdataset.nocache if ck == "nocache" else abstractdataset)(abstract=False)
        if n.get("wraps"):
            # the decorator applied to an EXPRESSION instead of a function: dataset(WithOptions(X, P0), options=P, ...)
            fn = self.ref(n["wraps"])
        if h64(("staged-factory", name)) % 3 == 0:
            # the same definition spelled through a CHAIN of configured factories (project = dataset(cache=..., options=...);
            # specific = project.where(arg=...); specific(fn, effects=..., default_options=...)): every level keeps what the
            # levels before it configured, and a keyword given again replaces the inherited one as a whole. Chosen from the
            # node name so that the random stream of the generators is unchanged.
            early = {k: kw.pop(k) for k in ("cache", "options", "dispatch") if k in kw}
            if kw.get("default_options"):
                # defaults configured at the project level and given anew by the definition: the definition's replace them
                early["default_options"] = {k: ({kk: "<inherited-default>" for kk in v} if isinstance(v, dict) and v else "<inherited-default>")
                                            for k, v in kw["default_options"].items()}
            if early:
                factory = factory(**early)
            if argnames and not n.get("wraps") and not n.get("posonly"):
                factory = factory.where(**{argnames[-1]: self.ref(n["args"][argnames[-1]])})
            self.staged_factories = getattr(self, "staged_factories", 0) + 1
        ds = factory(fn, **kw)
        for alias, impl in n.get("overloads", []):
            self.register(ds, alias, impl, cache_kind=ck)
        return ds

    def _returns(self, n):
        r = n.get("returns")
        if not r:
            return None
        if r == "uncopyable":
            return ("uncopyable",)
        return ("node", self.ref(r["node"]))

    def register(self, ds, alias, impl, cache_kind="default"):
        """impl: {"n": id} (register an existing node) | {"fn": name, "args": {...}} (overload decorator)."""
        alias = [_key(a) for a in alias] if isinstance(alias, list) else _key(alias)
        if "n" in impl:
            target = self.ref(impl["n"])
            if impl.get("via") == "overload":
                return ds.overload(alias)(target)
            for a in alias if isinstance(alias, list) else [alias]:
                ds.register(a, target)
            return target
        argnames = list(impl.get("args", {}))
        fn = make_fn(impl["fn"], argnames, [self.ref(impl["args"][a]) for a in argnames], _body_impl(impl["fn"]))
        new = ds.overload(alias)(fn)
        # the overload decorator makes a new dataset with a MemoryCache of its own: give it the same kind of
        # backend as its parent so that its storage traffic is observable / faultable too
        if cache_kind == "recording":
            new.set_cache(RecordingCache(impl["fn"]))
        elif cache_kind == "faulty":
            new.set_cache(FaultyCache(impl["fn"]))
        elif cache_kind == "faulty_ne":
            new.set_cache(FaultyCacheDefaultExists(impl["fn"]))
        elif cache_kind == "faulty_mc":
            new.set_cache(FaultyMemoryCache(impl["fn"]))
        elif cache_kind == "faulty_front":
            new.set_cache(FaultyFront(impl["fn"]))
        elif cache_kind == "nocache":
            new.set_cache(labrea.cache.NoCache())
        if impl.get("id"):
            self.obj[impl["id"]] = new
        return new

    def _b_derive(self, n):
        base = self.ref(n["base"])
        opts = self._preset(n["id"], n["how"], n["options"])
        return getattr(base, n["how"])(opts)


def _key(c):
    """JSON constant -> Python dispatch key (lists become tuples; {"tuple": [...]} is a tuple-valued alias)."""
    if isinstance(c, dict) and "tuple" in c:
        return tuple(c["tuple"])
    return tuple(c) if isinstance(c, list) else c

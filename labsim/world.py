"""A *world*: one live instance of a generated program plus everything the simulator owns about it —
event log, call counters, fault plan, backend fault script, process-global snapshots."""
import os as _os

import contextlib
import copy
import logging
import threading
import warnings

import labrea
import labrea.cache
import labrea.runtime as lrt
from labrea.exceptions import EvaluationError, KeyNotFoundError

from . import rt
from .build import Program
from .rt import FAULT_CLASSES, InjectedFault, Log, crepr, freeze

warnings.simplefilter("ignore")


class InjectedCacheGetFailure(InjectedFault, labrea.cache.CacheGetFailure):
    """User code failing with the very exception type labrea uses internally for cache misses."""

    def __init__(self, addr):
        Exception.__init__(self, f"injected fault at {addr}")
        self.addr = addr


FAULT_CLASSES["CacheGetFailure"] = InjectedCacheGetFailure

EVAL_OPS = ("evaluate", "call", "validate", "keys", "explain", "fingerprint")


def clsname(e):
    t = type(e)
    return f"{t.__module__}.{t.__qualname__}"


def cause_chain(e, limit=200):
    chain = []
    cur = e
    while cur is not None and len(chain) < limit:
        chain.append(cur)
        cur = cur.__cause__
    return chain


def classify(e):
    """Normalised image of an exception: no addresses, no reprs, no set order."""
    chain = cause_chain(e)
    root = chain[-1]
    info = {"top": clsname(e), "root": clsname(root), "depth": len(chain)}
    if isinstance(root, KeyNotFoundError):
        info["key"] = root.key
    if isinstance(root, InjectedFault):
        info["addr"] = list(root.addr)
    return info


class Outcome:
    __slots__ = ("ok", "value", "err", "exc")

    def __init__(self, ok, value=None, err=None, exc=None):
        self.ok = ok
        self.value = value  # canonical text
        self.err = err  # classify() dict
        self.exc = exc  # live exception (never serialised)

    def brief(self):
        if self.ok:
            return ["ok", self.value]
        e = self.err
        return ["err", e["top"].rsplit(".", 1)[-1], e["root"].rsplit(".", 1)[-1], e.get("key")]

    def same(self, other):
        """Equal outcome in the sense of C01: same value, or both fail."""
        if self.ok != other.ok:
            return False
        return (not self.ok) or self.value == other.value


@contextlib.contextmanager
def global_state_guard():
    """Snapshot / restore labrea's process-global mutable state around a run (DESIGN 2.10 item 10)."""
    runtimes = dict(lrt._RUNTIMES)
    defaults = dict(lrt._DEFAULT_HANDLERS)
    import labrea.overload as lov

    lock_table = getattr(lov, "_LOCKS", None)  # private: absent in trees that keep their locks elsewhere
    nlocks = set(lock_table) if lock_table is not None else set()
    entered = getattr(lrt, "_ENTERED", None)
    entered_snap = {k: list(v) for k, v in entered.items()} if entered is not None else None
    try:
        yield
    finally:
        if entered is not None:
            entered.clear()
            entered.update(entered_snap)
        lrt._RUNTIMES.clear()
        lrt._RUNTIMES.update(runtimes)
        lrt._DEFAULT_HANDLERS.clear()
        lrt._DEFAULT_HANDLERS.update(defaults)
        for k in list(lock_table if lock_table is not None else ()):
            if k not in nlocks:
                del lock_table[k]
        rt.CUR = None


_os.environ["LABSIM_E"] = "envval"  # (what '{@env.LABSIM_E}' resolves to; LABSIM_UNSET is never set)
_os.environ.pop("LABSIM_UNSET", None)


class World:
    def __init__(self, spec, faults=None, backend_script=None, record=True, inplace=False, log_handler=False):
        self.spec = spec
        self.log = Log()
        self.op_index = -1
        self.calls_in_op = {}
        self.faults = dict(faults or {})  # (op_index, kind, name, nth) -> exception class name
        self.armed = {}  # (kind, name) -> exception class name: raises on every call while armed
        self.armed_kinds = {}  # kind -> exception class name
        self.fired = []  # fault addresses that actually fired
        self.backend_script = dict(backend_script or {})  # global backend call index -> fault kind
        self.backend_calls = 0
        self.backend_fired = []
        self.counts = {}  # (kind, name) -> total calls
        self.record = record
        self.log_handler = log_handler
        # the caller keeps ONE options dictionary and edits it in place between calls (identity preserved across ops)
        self.shared_o = {} if inplace else None
        self.by_thread = None  # thread-sim: {(thread name, kind, name): calls}
        self.structural = []  # structural ops applied so far (for twins)
        self.mutations = []  # input-dictionary / preset mutations observed (C08 monitor)
        with self.active():
            self.prog = Program(spec)

    # ------------------------------------------------------------------ activation
    @contextlib.contextmanager
    def active(self):
        prev = rt.CUR
        rt.CUR = self
        env = self.spec.get("env") if isinstance(self.spec, dict) else None
        undo = []
        if env:
            import logging
            import warnings

            from .build import PROG_MODULE

            if env.get("log_level"):
                for name in ("labrea", PROG_MODULE):
                    lg = logging.getLogger(name)
                    undo.append((lambda lg=lg, lvl=lg.level, hs=list(lg.handlers), pr=lg.propagate: (lg.setLevel(lvl), setattr(lg, "handlers", hs), setattr(lg, "propagate", pr))))
                    if not getattr(lg, "_labsim_managed", False):  # (C16 installs its own sink and levels)
                        lg.setLevel(getattr(logging, env["log_level"]))
                        if not lg.handlers:
                            lg.addHandler(logging.NullHandler())
                        lg.propagate = False
            if env.get("log_disable"):
                was = logging.root.manager.disable
                logging.disable(logging.CRITICAL)
                undo.append(lambda was=was: logging.disable(was))
            if env.get("warn_error"):
                cm = warnings.catch_warnings()
                cm.__enter__()
                warnings.simplefilter("error", RuntimeWarning)
                undo.append(lambda cm=cm: cm.__exit__(None, None, None))
        try:
            if self.log_handler:
                # the user's own LogRequest handler (user code, a fault site like any other): it notes the record and passes
                # it on to labrea's default handler
                import re

                import labrea.logging as llog

                default_log = lrt._DEFAULT_HANDLERS[llog.LogRequest]  # (what Request.handle registered: public decorator)

                def handler(request):
                    m = re.search(r"<Dataset ([^>]+)>", request.msg)
                    rt.call("loghandler", m.group(1).split(".")[-1] if m else "log")
                    return default_log(request)

                with lrt.handle(llog.LogRequest, handler):
                    yield self
            else:
                yield self
        finally:
            rt.CUR = prev
            for u in reversed(undo):
                u()

    # ------------------------------------------------------------------ stub callbacks
    def on_call(self, kind, name, kw):
        key = (kind, name)
        n = self.calls_in_op.get(key, 0)
        self.calls_in_op[key] = n + 1
        self.counts[key] = self.counts.get(key, 0) + 1
        if self.by_thread is not None:
            t = threading.current_thread().name
            self.by_thread[(t, kind, name)] = self.by_thread.get((t, kind, name), 0) + 1
        if self.record:
            self.log.add("call", self.op_index, kind, name, n, freeze(kw))
        exc = self.faults.get((self.op_index, kind, name, n))
        if exc is None:
            exc = self.armed.get(key)
        if exc is None:
            exc = self.armed_kinds.get(kind)  # every callable of a kind (e.g. all effects) while armed
        if exc is not None:
            addr = (self.op_index, kind, name, n)
            self.fired.append(addr)
            self.log.add("fault", addr, exc)
            raise FAULT_CLASSES[exc](addr)

    def backend_fault(self, name, method):
        i = self.backend_calls
        self.backend_calls += 1
        f = self.backend_script.get(i)
        self.counts[("backend", f"{name}.{method}")] = self.counts.get(("backend", f"{name}.{method}"), 0) + 1
        if self.record:
            self.log.add("backend", self.op_index, name, method, i, f)
        if f is not None:
            self.backend_fired.append((i, name, method, f))
        return f

    def count(self, kind, name=None):
        if name is None:
            return sum(v for (k, _), v in self.counts.items() if k == kind)
        return self.counts.get((kind, name), 0)

    def snapshot_counts(self):
        return dict(self.counts)

    @staticmethod
    def diff_counts(before, after):
        return {k: after[k] - before.get(k, 0) for k in after if after[k] != before.get(k, 0)}

    # ------------------------------------------------------------------ operations
    def do(self, op):
        """Execute one op of a history. Returns an Outcome for evaluation-type ops, None otherwise."""
        self.op_index += 1
        self.calls_in_op = {}
        kind = op["op"]
        with self.active():
            if kind in EVAL_OPS:
                if self.shared_o is not None:
                    self.shared_o.clear()
                    self.shared_o.update(copy.deepcopy(op["o"]))
                    return self._eval_op(kind, op, o_obj=self.shared_o)
                return self._eval_op(kind, op)
            self._structural(op)
            self.structural.append(op)
            if self.record:
                self.log.add("struct", self.op_index, kind)
            return None

    def _eval_op(self, kind, op, o_obj=None):
        """o_obj: a caller-owned dictionary object to pass as is (identity preserved across ops)."""
        obj = self.prog.obj[op["node"]]
        o = copy.deepcopy(op["o"]) if o_obj is None else o_obj
        snap = crepr(o)
        as_mapping = (self.spec.get("env") or {}).get("mapping") if isinstance(self.spec, dict) else None
        if as_mapping:
            # the options are a Mapping, not necessarily a dict (labrea's Options type): a view over the caller's dictionary
            import collections

            inner = o
            o = collections.ChainMap(inner) if as_mapping == "chainmap" else collections.UserDict(inner)
            if as_mapping == "userdict":
                o.data = inner  # (a view, not a copy: the mutation monitor looks at the caller's own dictionary)
        try:
            if kind == "evaluate":
                res = obj.evaluate(o)
                out = Outcome(True, crepr(res))
            elif kind == "call":
                res = obj(o)
                out = Outcome(True, crepr(res))
            elif kind == "validate":
                obj.validate(o)
                out = Outcome(True, "None")
            elif kind == "fingerprint":
                out = Outcome(True, obj.fingerprint(o).decode())
            else:
                res = getattr(obj, kind)(o)
                out = Outcome(True, repr(sorted(res)))
        except Exception as e:  # noqa: BLE001 — every failure is an outcome
            out = Outcome(False, err=classify(e), exc=e)
        if crepr(dict(o) if as_mapping else o) != snap:
            self.mutations.append((self.op_index, "caller-dict", op["node"]))
        for owner, role in self.prog.mutated_presets():
            self.mutations.append((self.op_index, "preset", owner, role))
        if self.record:
            # (which of several missing keys a failure names depends on set iteration order -> not part of the log)
            self.log.add("op", self.op_index, kind, op["node"], crepr(op["o"]), out.brief()[:3])
        return out

    def _structural(self, op):
        kind = op["op"]
        p = self.prog
        if kind == "register":
            p.register(p.obj[op["ds"]], op["alias"], op["impl"], cache_kind=p.node[op["ds"]].get("cache", "default"))
        elif kind == "overload_stacked":
            # @ds.overload(a1) @ds.overload(a2) def fn(...): one new dataset registered under several aliases, one decorator each
            from .build import _body_impl, _key, make_fn, RecordingCache, FaultyCache

            ds = p.obj[op["ds"]]
            impl = op["impl"]
            argnames = list(impl.get("args", {}))
            fn = make_fn(impl["fn"], argnames, [p.ref(impl["args"][a]) for a in argnames], _body_impl(impl["fn"]))
            new = fn
            for a in reversed(op["aliases"]):
                new = ds.overload(_key(a))(new)
            ck = p.node[op["ds"]].get("cache", "default")
            if ck == "recording":
                new.set_cache(RecordingCache(impl["fn"]))
            elif ck == "nocache":
                new.set_cache(labrea.cache.NoCache())
            if impl.get("id"):
                p.obj[impl["id"]] = new
        elif kind == "set_dispatch":
            d = op["dispatch"]
            p.obj[op["ds"]].set_dispatch(p.obj[d["n"]] if isinstance(d, dict) else labrea.Option(d))
        elif kind == "derive":
            p.add_node(op["node_def"])
        elif kind == "add_node":
            p.add_node(op["node_def"])
        elif kind == "add_effects":
            from .build import _effect

            ds = p.obj[op["ds"]]
            base = len(ds.effects)
            nd = p.node[op["ds"]]
            while nd["k"] == "derive":  # a derived dataset: effects are named after the family's origin
                nd = p.node[nd["base"]]
            base -= len(nd.get("effects_opt", [])) + len(nd.get("log_effects", []))  # (plain effects are numbered among themselves)
            ds.add_effects(*[_effect(nd["name"], base + i) for i in range(op["n"])])
        elif kind == "set_cache":
            from .build import RecordingCache

            c = {"memory": labrea.cache.MemoryCache, "nocache": labrea.cache.NoCache, "recording": lambda: RecordingCache(op["ds"] + "#late")}[op["cache"]]
            # (both forms of the public API: an instance, or a zero-argument factory)
            p.obj[op["ds"]].set_cache(c if op.get("factory") else c())
        elif kind == "disable_effects":
            p.obj[op["ds"]].disable_effects()
        elif kind == "enable_effects":
            p.obj[op["ds"]].enable_effects()
        else:
            raise ValueError(f"unknown op {kind}")

    def raw(self, node, o, kind="evaluate"):
        """(ok, live value | exception) of node.<kind>(o) — for oracles that need Python values, not texts."""
        self.op_index += 1
        self.calls_in_op = {}
        with self.active():
            try:
                return True, getattr(self.prog.obj[node], kind)(copy.deepcopy(o))
            except Exception as e:  # noqa: BLE001
                return False, e

    # ------------------------------------------------------------------ twins
    def twin(self, **kw):
        """A freshly built world with the same shape (structural ops replayed) and empty caches."""
        t = World(self.spec, **kw)
        for op in self.structural:
            t.do(op)
        t.op_index = -1
        t.log = Log()
        t.counts = {}
        return t

"""Seeded generator of program specs (DAGs of labrea nodes) and of swarm configurations.

A spec is JSON: {"nodes": [node...], "roots": [id...]}; nodes are in topological order and refer to
earlier nodes by id, so sharing (diamonds) is ordinary.  Every feature has a swarm switch in `cfg`.
"""
import copy

from . import universe as U

ALL_KINDS = [
    "apply", "bind", "switch", "case", "coalesce", "list", "tuple", "dict", "map", "template",
    "withopts", "cached", "dataset", "derive",
]

# kinds a property has to opt in to (swarm_cfg(on=...)): every model that walks specs must know them
OPT_IN_KINDS = ["dsclass", "namespace", "fapp"]

ALL_FEATURES = [
    "tmpl",  # templated scalar values in dictionaries
    "tmpl_in_container",  # templated strings inside lists / whole sections
    "dangling",  # templates referring to absent keys
    "tmpl_preset",  # templated strings inside pre-set / default option dictionaries
    "lists",
    "whole_section",  # Options reading 'S' / 'L' / 'S.T' as a whole
    "opt_default_expr", "opt_default_tmpl", "opt_default_factory",
    "opt_domain", "opt_domain_expr",
    "case_param_cond",  # case-when conditions with option-valued parameters
    "dispatch", "overloads", "presets", "default_presets", "callbacks", "effects", "nocache",
    "alloptions", "shape_change", "never_keys", "partial_section_preset",
    "coalesce_value_fail",  # coalesce members that can fail because of a *value* (domain / switch)
    "abstract", "selector_ds", "step_params", "pipelines",
    "row_keys",  # options reading members of the rows of a list of sections (R.1.N)
    "wide_values",  # dictionary values beyond the small scalar universe (floats, big ints, long / non-ASCII strings, nested lists)
    "opt_type",  # Options with a declared type (type validation requests)
    "callback_params",  # callbacks that are pipeline steps reading an option of their own
    "iter",  # tuples built with labrea.Iter(...).apply(tuple) (lazy members)
]


def swarm_cfg(rng, *, base=None, off=(), on=(), p_feature=0.6, p_kind=0.75):
    """Per-run swarm configuration: a random subset of node kinds and features."""
    cfg = {"kinds": [k for k in ALL_KINDS if rng.random() < p_kind]}
    for f in ALL_FEATURES:
        cfg[f] = rng.random() < p_feature
    if "dataset" not in cfg["kinds"]:
        cfg["kinds"].append("dataset")
    cfg["n_internal"] = rng.randint(3, 10)
    cfg["n_ops"] = rng.randint(4, 24)
    for f in off:
        if f in ALL_KINDS:
            cfg["kinds"] = [k for k in cfg["kinds"] if k != f]
        else:
            cfg[f] = False
    for f in on:
        if f in OPT_IN_KINDS:
            if rng.random() < p_kind:
                cfg["kinds"].append(f)
        elif f in ALL_KINDS:
            if f not in cfg["kinds"]:
                cfg["kinds"].append(f)
        else:
            cfg[f] = True
    if base:
        cfg.update(base)
    if not cfg["tmpl"]:
        cfg["tmpl_in_container"] = cfg["dangling"] = cfg["tmpl_preset"] = False
    return cfg


class SpecGen:
    def __init__(self, rng, cfg):
        self.rng = rng
        self.cfg = cfg
        self.nodes = []
        self.info = {}  # id -> {"hashable": bool, "is_ds": bool, "forced": set(paths), "kind": ...}
        self.n_ds = 0
        self.unused = []

    # ------------------------------------------------------------------ plumbing
    def add(self, node, **info):
        nid = f"n{len(self.nodes)}"
        node["id"] = nid
        self.nodes.append(node)
        inf = {"hashable": False, "is_ds": False, "forced": set(), "kind": node["k"], "list": False}
        inf.update(info)
        self.info[nid] = inf
        self.unused.append(nid)
        return nid

    def pick(self, pred=None, prefer_unused=0.6):
        r = self.rng
        ids = [n["id"] for n in self.nodes if pred is None or pred(n["id"])]
        if not ids:
            return None
        un = [i for i in ids if i in self.unused]
        nid = r.choice(un) if un and r.random() < prefer_unused else r.choice(ids)
        if nid in self.unused:
            self.unused.remove(nid)
        return nid

    def pick_any(self):
        return self.pick() or self.leaf()

    def pick_hashable(self):
        nid = self.pick(lambda i: self.info[i]["hashable"], prefer_unused=0.3)
        return nid or self.selector_leaf()

    # ------------------------------------------------------------------ leaves
    def key(self, scalar_only=False):
        r = self.rng
        pool = U.SCALAR_KEYS * 3 + U.SECTION_KEYS * 2 + U.DISPATCH_KEYS
        if self.cfg["lists"]:
            pool = pool + U.LIST_KEYS
        if self.cfg.get("row_keys"):
            pool = pool + U.ROW_KEYS * 2
        if self.cfg["whole_section"] and not scalar_only:
            pool = pool + U.WHOLE_KEYS
        return r.choice(pool)

    def const(self, allow_container=True):
        r = self.rng
        x = r.random()
        braces = self.cfg.get("tmpl_in_container") and r.random() < 0.4
        if allow_container and x < 0.1:
            # (a literal container may hold text that LOOKS like a template: as a default it is a value, not a template)
            return [r.choice([0, 1, "a"]) for _ in range(r.randint(0, 2))] + (["x{NX9}"] if braces else [])
        if allow_container and x < 0.15:
            return {"X": r.choice(U.SCALARS), **({"Y": "{NX9}/y"} if braces else {})}
        return r.choice(U.SCALARS)

    def leaf(self):
        r = self.rng
        if self.cfg.get("odd_constants") and r.random() < 0.08:
            # a constant OBJECT whose deepcopy raises something unusual (a multiprocessing lock: RuntimeError, a ctypes pointer:
            # ValueError): labrea hands it on uncopied
            return self.add({"k": "val", "v": "§const", "nocopy": r.choice(["RuntimeError", "ValueError", "RecursionError"])}, hashable=True)
        if self.cfg.get("tuple_constants") and r.random() < 0.1:
            # a TUPLE constant with a mutable member (copied member by member for every computation)
            return self.add({"k": "val", "v": [r.choice([0, 1, "a"]) for _ in range(r.randint(0, 2))], "wrap": "tuple"}, hashable=False)
        if r.random() < 0.2:
            v = self.const()
            return self.add({"k": "val", "v": v}, hashable=not isinstance(v, (list, dict)))
        if self.cfg["alloptions"] and r.random() < 0.05:
            return self.add({"k": "alloptions"})
        return self.opt()

    def selector_leaf(self):
        """An Option on a scalar key, optionally with a constant default (restricted selector grammar)."""
        r = self.rng
        key = r.choice(U.DISPATCH_KEYS + U.SCALAR_KEYS + ["S.X"])
        node = {"k": "opt", "key": key}
        if r.random() < 0.5:
            node["default"] = {"t": "const", "v": r.choice(U.DISPATCH_VALUES)}
        return self.add(node, hashable=True)

    def opt(self):
        r, cfg = self.rng, self.cfg
        key = self.key()
        node = {"k": "opt", "key": key}
        x = r.random()
        if x < 0.35:
            pass
        elif x < 0.6:
            node["default"] = {"t": "const", "v": self.const()}
        elif x < 0.7 and cfg["opt_default_tmpl"]:
            node["default"] = {"t": "tmpl", "s": r.choice([t for t in U.TEMPLATES if t != "{L}"])}
        elif x < 0.8 and cfg["opt_default_factory"]:
            node["default"] = {"t": "factory", "v": self.const()}
        elif x < 0.95 and cfg["opt_default_expr"] and self.nodes:
            node["default"] = {"t": "expr", "n": self.pick_any()}
        if cfg.get("user_evaluatables") and r.random() < 0.25 and key not in U.WHOLE_KEYS and (node.get("default") or {"t": "const"})["t"] == "const":
            # a user-defined Evaluatable in the place of this Option (no domain, no type, a literal default or none)
            node["impl"] = r.choice(["user", "user_mixin"])
            return self.add(node, hashable=not isinstance((node.get("default") or {}).get("v"), (list, dict)))
        if cfg.get("opt_type") and r.random() < 0.25:
            node["type"] = r.choice(["int", "str", "object"])
        if cfg["opt_domain"] and r.random() < 0.25:
            y = r.random()
            if y < 0.45:
                node["domain"] = {"t": "container", "v": r.sample(U.SCALARS, r.randint(2, 6))}
            elif y < 0.8:
                node["domain"] = {"t": "pred", "v": r.sample(U.SCALARS, r.randint(2, 6))}
            elif cfg["opt_domain_expr"]:
                dn = self.add({"k": "opt", "key": r.choice(["C", "S.Z"]), "default": {"t": "const", "v": r.sample([0, 1, 2, "a", "b", None], 3)}})
                self.unused.remove(dn)
                node["domain"] = {"t": "expr", "n": dn}
        if cfg["opt_domain_expr"] and cfg["opt_domain"] and r.random() < 0.12:
            # an option-valued domain that can never exclude the default: the domain option DOM is either absent (its own
            # default list contains this option's default) or holds the full value universe (see DictGen)
            dv = r.choice([0, 1, 2, True, False, None])
            node["default"] = {"t": "const", "v": dv}
            dn = self.add({"k": "opt", "key": "DOM", "default": {"t": "const", "v": [dv] + r.sample([0, 1, "a", "b"], 2)}})
            self.unused.remove(dn)
            node["domain"] = {"t": "expr", "n": dn}
            whole = key in U.WHOLE_KEYS
            return self.add(node, hashable=not whole, list=(key == "L"))
        # A default outside its own declared domain is an ill-formed program, not an input (C10's
        # precondition "option values lie in their declared domains"): validate() accepts it, evaluate()
        # rejects it.  Keep constant defaults inside the domain; no domain next to computed defaults.
        if node.get("domain") and node.get("default"):
            d, dom = node["default"], node["domain"]
            if d["t"] in ("const", "factory") and dom["t"] in ("container", "pred"):
                if U.canon(d["v"]) not in [U.canon(x) for x in dom["v"]]:
                    dom["v"] = list(dom["v"]) + [d["v"]]
            else:
                del node["domain"]
        whole = key in U.WHOLE_KEYS
        return self.add(node, hashable=not whole, list=(key == "L"))

    # ------------------------------------------------------------------ presets
    def preset(self, avoid=()):
        """A small pre-set dictionary; its leaf paths avoid `avoid`."""
        r, cfg = self.rng, self.cfg
        cand = [k for k in U.SCALAR_KEYS + U.SECTION_KEYS + U.DISPATCH_KEYS if k not in avoid]
        if not cfg["partial_section_preset"]:
            cand = [k for k in cand if "." not in k]
        o = {}
        for k in r.sample(cand, min(len(cand), r.randint(1, 2))):
            if cfg["tmpl_preset"] and r.random() < 0.25 and k not in U.PRESET_TEMPLATE_TARGETS:
                # hazard 12 across dictionaries: a template in a pre-set and one in the caller's dictionary (or in another
                # pre-set) could close a reference cycle -> pre-set templates only refer to keys that never hold templates
                v = r.choice(U.PRESET_TEMPLATES)
            elif k in U.DISPATCH_KEYS:
                v = r.choice(U.DISPATCH_VALUES)
            else:
                v = r.choice(U.SCALARS)
            U.set_path(o, k, v)
        if cfg.get("preset_plain_section") and r.random() < 0.2 and "S" not in o and not any(a == "S" or a.startswith("S.") for a in avoid):
            # a PLAIN value where callers (and readers) have a section
            o["S"] = r.choice([0, 1, "a", None])
        if U.has_template_cycle(o):
            return self.preset(avoid)
        return o

    # ------------------------------------------------------------------ internal nodes
    def fn(self):
        r, cfg = self.rng, self.cfg
        x = r.random()
        nm = f"f{len(self.nodes)}"
        if cfg.get("lib_steps") and r.random() < 0.4:
            # a step from labrea.functions (the library's own helpers), possibly with an Evaluatable argument
            expr = r.choice(LIB_STEPS_LOCAL if cfg["lib_steps"] == "all" and r.random() < 0.3 else LIB_STEPS)
            return {"t": "lib", "expr": expr, "refs": {"p": self.pick_any()} if "{p}" in expr else {}}
        if x < 0.5 or not (cfg["step_params"] or cfg["pipelines"]):
            return {"t": "fn", "name": nm}
        if x < 0.8 and cfg["step_params"]:
            return {"t": "step", "name": nm, "params": {"p": self.pick_any()}}
        if cfg["pipelines"]:
            steps = []
            for j in range(r.randint(2, 3)):
                if cfg["step_params"] and r.random() < 0.6:
                    steps.append({"t": "step", "name": f"{nm}{'abc'[j]}", "params": {"p": self.pick_any()}})
                else:
                    steps.append({"t": "fn", "name": f"{nm}{'abc'[j]}"})
            return {"t": "pipeline", "steps": steps}
        return {"t": "fn", "name": nm}

    def g_apply(self):
        src = self.pick_any()
        return self.add({"k": "apply", "src": src, "fn": self.fn(), "via": self.rng.choice(["apply", "rshift"])}, hashable=True)

    def g_bind(self):
        r = self.rng
        src = self.pick_hashable()
        table = {}
        for c in r.sample(U.DISPATCH_VALUES, r.randint(1, 3)):
            table[repr(c)] = self.pick_any()
        return self.add({"k": "bind", "src": src, "table": table, "default": self.pick_any()})

    def g_switch(self):
        r = self.rng
        if r.random() < 0.4:
            disp = r.choice(U.DISPATCH_KEYS)
        else:
            disp = {"n": self.pick_hashable()}
        lookup = [[c, self.pick_any()] for c in r.sample(U.DISPATCH_VALUES, r.randint(1, 3))]
        if self.cfg.get("empty_switches") and r.random() < 0.1:
            lookup = []  # no branch registered (yet): every value is unmatched
        default = self.pick_any() if r.random() < 0.6 else None
        return self.add({"k": "switch", "dispatch": disp, "lookup": lookup, "default": default})

    def g_case(self):
        r = self.rng
        disp = self.pick_hashable()
        cases = []
        for _ in range(r.randint(1, 3)):
            if self.cfg["case_param_cond"] and r.random() < 0.4:
                if r.random() < 0.5:
                    pred = {"t": "param", "n": self.pick_hashable()}  # may be a dataset: a condition with a body behind it
                else:
                    pred = {"t": "param", "n": self.selector_leaf()}
                    self.unused.remove(pred["n"])
            elif self.cfg.get("plain_case_conditions") and r.random() < 0.2:
                pred = {"t": "plain", "v": r.choice(["a", "b", 1])}  # .when('a', X): a plain value where a predicate is expected
            else:
                pred = {"t": "eq", "v": r.choice(U.DISPATCH_VALUES)}
            cases.append([pred, self.pick_any()])
        default = self.pick_any() if r.random() < 0.6 else None
        return self.add({"k": "case", "dispatch": disp, "cases": cases, "default": default})

    def g_coalesce(self):
        r = self.rng
        members = [self.pick_any() for _ in range(r.randint(2, 3))]
        if self.cfg["coalesce_value_fail"] and self.cfg["opt_domain"] and r.random() < 0.4:
            # a first member that can be rejected because of its VALUE (fall-through for a reason other than absence)
            m = self.add({"k": "opt", "key": self.key(scalar_only=True), "domain": {"t": "container", "v": r.sample(U.SCALARS, r.randint(2, 5))}}, hashable=True)
            self.unused.remove(m)
            members[0] = m
        if not self.cfg["coalesce_value_fail"]:
            # earlier members may only fail for a missing key: no domain, no default-less switch/case beneath
            members = [m for m in members if not self._can_fail_by_value(m)] or members[-1:]
            if len(members) < 2:
                members = [self.add({"k": "opt", "key": self.key(scalar_only=True)}, hashable=True)] + members
                self.unused.remove(members[0])
        return self.add({"k": "coalesce", "members": members})

    def _can_fail_by_value(self, nid, seen=None):
        """Over-approximation: may this node fail for a reason other than an absent key?"""
        seen = seen if seen is not None else set()
        if nid in seen:
            return False
        seen.add(nid)
        n = next(x for x in self.nodes if x["id"] == nid)
        k = n["k"]
        if k == "opt":
            if n.get("domain"):
                return True
            d = n.get("default") or {}
            if d.get("t") == "expr":
                return self._can_fail_by_value(d["n"], seen)
            return False
        if k in ("switch", "case"):
            if n.get("default") is None:
                return True
        if k in ("bind", "case", "map", "dataset", "derive", "apply", "cached", "withopts", "alloptions", "namespace", "dsclass", "fapp"):
            # user callables / dispatch / shape-dependent: conservative
            return True
        kids = []
        for key in ("members", "items"):
            for it in n.get(key, []):
                kids.append(it[1] if isinstance(it, list) else it)
        if k == "switch":
            kids += [v for _, v in n["lookup"]] + ([n["default"]] if n.get("default") else [])
            if isinstance(n["dispatch"], dict):
                kids.append(n["dispatch"]["n"])
        if k == "template":
            kids += list(n.get("params", {}).values())
        return any(self._can_fail_by_value(c, seen) for c in kids)

    def g_list(self):
        return self.add({"k": "list", "items": [self.pick_any() for _ in range(self.rng.randint(1, 3))]})

    def g_tuple(self):
        node = {"k": "tuple", "items": [self.pick_any() for _ in range(self.rng.randint(1, 3))]}
        if self.cfg.get("iter") and self.rng.random() < 0.4:
            # labrea.Iter: the members are evaluated lazily, while the consumer (tuple()) iterates
            node["via"] = "iter"
        return self.add(node)

    def g_dsclass(self):
        """A @datasetclass: annotated members, un-annotated class attributes and members inherited from a plain mixin."""
        r = self.rng
        names = r.sample(["fa", "fb", "fc", "fd"], r.randint(1, 3))
        node = {"k": "dsclass", "name": f"DC{len(self.nodes)}", "fields": [], "plain": [], "mixin": []}
        bases = [n["id"] for n in self.nodes if n["k"] == "dsclass"]
        if bases and r.random() < 0.5:
            # derives from another dataset class; members of the same name OVERRIDE the inherited ones
            node["base"] = r.choice(bases)
        for nm in names:
            where = r.choices(["fields", "plain", "mixin"], [5, 2, 2])[0]
            node[where].append([nm, self.pick_any()])
        return self.add(node)

    def g_fapp(self):
        """FunctionApplication / PartialApplication built DIRECTLY: positional arguments (plain values among them) and,
        half the time, a FUNCTION position that holds an Evaluatable (the callable is chosen by an option-dependent node)."""
        r = self.rng
        nm = f"fa{len(self.nodes)}"
        if r.random() < 0.55:
            func = {"t": "pick", "n": self.pick_hashable(), "names": [nm + "x", nm + "y"], "first": r.sample(U.DISPATCH_VALUES, r.randint(1, 3))}
        else:
            func = {"t": "fn", "name": nm}
        pos = []
        for _ in range(r.randint(0, 2)):
            x = r.random()
            if x < 0.25:
                # a constant no other node carries: whoever sees it in a call can tell which Value node it came from
                pos.append({"v": f"pv{len(self.nodes)}_{len(pos)}"})
            elif x < 0.5:
                pos.append({"v": r.choice(U.SCALARS + [[1, 2], {"k": "v"}])})
            else:
                pos.append({"n": self.pick_any()})
        kw = {a: self.pick_any() for a in r.sample(["a", "b"], r.randint(0, 2))}
        return self.add({"k": "fapp", "form": r.choice(["app", "app", "partial"]), "func": func, "pos": pos, "kw": kw}, hashable=True)

    def g_namespace(self):
        """An @Option.namespace class (one per program): declared members of every kind; evaluates to the populated section."""
        r = self.rng
        if any(n["k"] == "namespace" for n in self.nodes):
            return self.g_dataset()
        members = [{"t": "const", "name": "P", "v": r.choice([1, "p", None])}]
        if r.random() < 0.5:
            members.append({"t": "annot", "name": "REQ"})
        if r.random() < 0.4:
            members.append({"t": "annot", "name": "_HID"})  # a declared member with a private-looking name (required)
        if r.random() < 0.6:
            members.append({"t": "sub", "name": "SUB", "v": r.choice([0, "x"])})
        if r.random() < 0.6:
            members.append({"t": "auto", "name": "AU", "v": r.choice([2, "au"])})
        ds = [n["id"] for n in self.nodes if n["k"] == "dataset" and not n.get("abstract")]
        if ds and r.random() < 0.5:
            members.append({"t": "expr", "name": "DD", "n": r.choice(ds)})
        return self.add({"k": "namespace", "name": "NSP", "members": members})

    def g_dict(self):
        r = self.rng
        keys = r.sample(["k1", "k2", "k3"], r.randint(1, 2))
        return self.add({"k": "dict", "items": [[k, self.pick_any()] for k in keys]})

    def _dispatch_keys_under(self, nid, seen=None):
        """[(option key, aliases)] of the switches / dispatching datasets beneath a node whose dispatch is an option key."""
        seen = seen if seen is not None else set()
        if nid in seen:
            return []
        seen.add(nid)
        n = next(x for x in self.nodes if x["id"] == nid)
        out = []
        disp = n.get("dispatch") if n["k"] in ("switch", "dataset") else None
        key = None
        if isinstance(disp, str):
            key = disp
        elif isinstance(disp, dict):
            m = next(x for x in self.nodes if x["id"] == disp["n"])
            if m["k"] == "opt":
                key = m["key"]
        if key is not None:
            aliases = [c for c, _ in n["lookup"]] if n["k"] == "switch" else [a for al, _ in n.get("overloads", []) for a in (al if isinstance(al, list) else [al])]
            out.append((key, [a for a in aliases if not isinstance(a, list)]))
        for c in children(n):
            out.extend(self._dispatch_keys_under(c, seen))
        return out

    def g_map(self):
        r = self.rng
        target = self.pick(lambda i: self.info[i]["is_ds"]) or self.pick_any()
        iterables = {}
        keys = r.sample(["A", "B", "S.X", "S.Y", "M"], r.randint(1, 2))
        disp = [d for d in self._dispatch_keys_under(target) if d[0] not in U.WHOLE_KEYS and not d[0].startswith("L")]
        forced_values = {}
        if disp and r.random() < 0.6:
            # map over a key the target DISPATCHES on, with values selecting different branches: each element then has
            # its own key set (what a Map must union over all elements, not read off the first one)
            k, aliases = r.choice(disp)
            keys = [k] + [x for x in keys if x != k][: r.randint(0, 1)]
            pool = list(aliases) + ["zz"]
            r.shuffle(pool)
            forced_values[k] = pool[: max(2, min(3, len(pool)))]
        for key in keys:
            if key in forced_values:
                it = self.add({"k": "val", "v": forced_values[key]})
            elif r.random() < 0.5:
                # (True / 1 and False / 0 are equal as dictionary keys but not as option values)
                it = self.add({"k": "val", "v": r.sample([0, 1, 2, "a", "b", True, False], r.randint(0, 3))})
            else:
                it = self.add({"k": "opt", "key": "L", "default": {"t": "const", "v": r.sample([0, 1, "a", True], r.randint(1, 2))}}, list=True)
            self.unused.remove(it)
            iterables[key] = it
        node = {"k": "map", "target": target, "iterables": iterables, "values": r.random() < 0.3}
        if self.cfg.get("map_partial") and r.random() < 0.5:
            node["consume"] = "first"  # the consumer stops after the first element
        return self.add(node, hashable=True)

    def g_template(self):
        r = self.rng
        parts = []
        params = {}
        for i in range(r.randint(1, 3)):
            x = r.random()
            if x < 0.5:
                parts.append("{" + self.key(scalar_only=True) + "}")
            elif x < 0.8:
                nm = f"p{i}"
                # hazard: str() of the AllOptions dictionary depends on top-level key order, which the
                # fingerprint (rightly) ignores -> only order-stable values are stringified by templates
                params[nm] = self.pick(lambda j: self._str_stable(j)) or self.selector_leaf()
                parts.append("{:" + nm + ":}")
            else:
                # (no escaped braces: the resolved text "{e}" would be re-interpreted as a reference by any
                #  template that later stringifies a value containing it — a C09 matter, not claimed here)
                parts.append(r.choice(["lit", "x", "-"]))
        if not any(p.startswith("{") for p in parts):
            parts.append("{" + self.key(scalar_only=True) + "}")
        if self.cfg.get("env_refs") and r.random() < 0.3:
            # a reference into the PROCESS ENVIRONMENT (confectioner's '{@env.NAME}'): set by the harness / never set
            parts.append(r.choice(["{@env.LABSIM_E}", "{@env.LABSIM_E}", "{@env.LABSIM_UNSET}"]))
        if r.random() < 0.12:
            # a parameter the text does not refer to (labrea warns, and still evaluates it)
            params["unused"] = self.pick(lambda j: self._str_stable(j)) or self.selector_leaf()
        return self.add({"k": "template", "text": "_".join(parts), "params": params}, hashable=True)

    def _str_stable(self, nid, seen=None):
        seen = seen if seen is not None else set()
        if nid in seen:
            return True
        seen.add(nid)
        n = next(x for x in self.nodes if x["id"] == nid)
        k = n["k"]
        if k in ("alloptions", "dict", "dsclass", "namespace"):
            # (a datasetclass instance prints as Name({...}): braces again)
            return False
        if k == "val":
            return not isinstance(n["v"], dict) and "{" not in repr(n["v"]) and not n.get("wrap")
        if k == "opt" and n.get("impl") in ("user", "user_mixin"):
            return False  # (hands templated text through unresolved: braces again)
        if k == "opt" and "{" in repr((n.get("default") or {}).get("v")):
            return False  # (brace text in a literal default: the same re-resolution hazard)
        if k == "opt" and (n["key"] in U.WHOLE_KEYS or isinstance((n.get("default") or {}).get("v"), dict)):
            # hazard: the string form of a dictionary contains braces, which confectioner's resolve
            # re-interprets as a template reference (a C09 matter, not claimed here)
            return False
        if k == "template":
            return "\\{" not in n["text"] and all(self._str_stable(c, seen) for c in n.get("params", {}).values())
        if k == "dataset":
            # the default body returns a frozen tuple; a selector body and registered overload NODES pass their value through
            passthrough = [impl["n"] for _, impl in n.get("overloads", []) if "n" in impl]
            if n.get("body") == "selector":
                passthrough += list(n.get("args", {}).values())
            # (... and the frozen tuple shows its arguments: text with braces among them would be re-read as a template)
            return all(self._str_stable(c, seen) for c in passthrough) and all(self._str_stable(c, seen) for c in n.get("args", {}).values())
        if k == "derive":
            return self._str_stable(n["base"], seen)
        if k == "fapp" and any("{" in repr(p.get("v")) for p in n["pos"]):
            return False
        return all(self._str_stable(c, seen) for c in children(n))

    def g_withopts(self):
        r = self.rng
        inner = self.pick_any()
        force = r.random() < 0.5 or not self.cfg["default_presets"]
        return self.add({"k": "withopts", "inner": inner, "options": self.preset(), "force": force})

    def g_cached(self):
        return self.add({"k": "cached", "inner": self.pick_any()})

    def g_dataset(self, root=False):
        r, cfg = self.rng, self.cfg
        name = f"D{self.n_ds}"
        self.n_ds += 1
        selector = cfg["selector_ds"] and not root and r.random() < 0.12
        node = {"k": "dataset", "name": name}
        if selector:
            node["body"] = "selector"
            node["args"] = {"a": self.selector_leaf()}
            self.unused.remove(node["args"]["a"])
        elif cfg.get("wrapping_datasets") and not root and r.random() < 0.2 and any(n["k"] in ("withopts", "dataset", "cached") for n in self.nodes):
            # dataset(<expression>, options=...): the decorator wraps an existing evaluatable
            node["args"] = {}
            node["wraps"] = self.pick(lambda j: self.info[j]["kind"] in ("withopts", "dataset", "cached"))
        else:
            nargs = r.randint(0 if not root else 1, 3)
            node["args"] = {"abc"[i]: self.pick_any() for i in range(nargs)}
            if cfg.get("posonly_params") and nargs and r.random() < 0.2:
                node["posonly"] = r.randint(1, nargs)  # def body(a=..., /, b=...): leading parameters are positional-only
        if cfg.get("odd_returns") and not selector and r.random() < 0.25:
            node["returns"] = "uncopyable"
        elif cfg.get("returns_node") and not selector and r.random() < 0.25:
            ds_before = [n["id"] for n in self.nodes if n["k"] == "dataset" and not n.get("abstract")]
            if ds_before:
                node["returns"] = {"node": r.choice(ds_before)}
        if cfg.get("partial_bodies") and not selector and node["args"] and r.random() < 0.3:
            # a partial body: undefined (raises) when one argument has one particular value
            by = {n["id"]: n for n in self.nodes}
            scalar = [a for a, nid in node["args"].items() if by[nid]["k"] == "opt" and by[nid]["key"] not in U.WHOLE_KEYS]
            if scalar:
                node["fails_if"] = {"arg": r.choice(scalar), "v": r.choice([0, 1, "a", "b", None, True])}
        if cfg.get("mutating_bodies") and not selector:
            # in-place work on an argument that is the value of a whole-section / whole-list option WITHOUT a default
            # (labrea hands every evaluation its own copy of such a value; a default object would be shared)
            by = {n["id"]: n for n in self.nodes}
            m = [a for a, nid in node["args"].items() if by[nid]["k"] == "opt" and by[nid]["key"] in U.WHOLE_KEYS and "default" not in by[nid] and "domain" not in by[nid]]
            m += [a for a, nid in node["args"].items() if by[nid]["k"] == "val" and by[nid].get("wrap") == "tuple"]
            if m and r.random() < 0.7:
                node["mutates"] = m
        if cfg["dispatch"] and r.random() < 0.4:
            x = r.random()
            if x < 0.5:
                node["dispatch"] = r.choice(U.DISPATCH_KEYS)
            else:
                node["dispatch"] = {"n": self.pick_hashable()}
            if cfg["overloads"]:
                ovs = []
                for alias in r.sample(U.DISPATCH_VALUES, r.randint(1, 2)):
                    if r.random() < 0.5 and self.nodes:
                        impl = {"n": self.pick_any()}
                        if self.info[impl["n"]]["is_ds"] and r.random() < 0.5:
                            impl["via"] = "overload"
                    else:
                        impl = {"fn": f"{name}_ov{len(ovs)}", "args": {"a": self.pick_any()} if r.random() < 0.7 else {}}
                    if r.random() < 0.2:
                        alias = [alias, "z"]
                    ovs.append([alias, impl])
                node["overloads"] = ovs
            if cfg["abstract"] and r.random() < 0.2 and not selector:
                node["abstract"] = True
        if cfg["presets"] and r.random() < 0.3:
            node["options"] = self.preset()
        if cfg["default_presets"] and r.random() < 0.3:
            node["default_options"] = self.preset()
            if cfg.get("deep_default_section") and r.random() < 0.5:
                # a default SECTION three levels down, at a path where callers put a plain value (nobody reads it: only the
                # bookkeeping of which caller keys shadow a default section sees it)
                node["default_options"]["K9"] = {"W": {"Z": {"x": 1}}}
        if cfg["callbacks"] and r.random() < 0.3 and not selector:
            node["callback"] = True
            if cfg.get("stateful_callables") and r.random() < 0.5:
                node["callback"] = "stateful"
            elif cfg.get("callback_params") and r.random() < 0.5:
                # a callback that is an Evaluatable itself: a pipeline step with an option-valued parameter
                node["callback_opt"] = self.selector_leaf()
                self.unused.remove(node["callback_opt"])
        if cfg["effects"] and r.random() < 0.3:
            node["effects"] = r.randint(1, 2)
        if cfg.get("effect_params") and r.random() < 0.25:
            node["effects_opt"] = [self.selector_leaf() for _ in range(r.randint(1, 2))]
            for x in node["effects_opt"]:
                self.unused.remove(x)
        if cfg["nocache"] and r.random() < 0.15:
            node["cache"] = "nocache"
        forced = set(U.leaf_paths(node.get("options", {})))
        return self.add(node, is_ds=True, hashable=True, forced=forced)

    def g_derive(self):
        r = self.rng
        base = self.pick(lambda i: self.info[i]["is_ds"], prefer_unused=0.2)
        if base is None:
            return self.g_dataset()
        how = r.choice(["with_options", "with_default_options"]) if self.cfg["default_presets"] else "with_options"
        forced = self.info[base]["forced"]
        # hazard 15: pre-sets of a derivation are disjoint from leaves the base already forces
        opts = self.preset(avoid=forced if how == "with_options" else ())
        new_forced = set(forced)
        if how == "with_options":
            new_forced |= set(U.leaf_paths(opts))
        return self.add({"k": "derive", "base": base, "how": how, "options": opts}, is_ds=True, hashable=True, forced=new_forced)

    # ------------------------------------------------------------------ whole spec
    def generate(self):
        r, cfg = self.rng, self.cfg
        for _ in range(r.randint(2, 4)):
            self.leaf()
        kinds = cfg["kinds"]
        weights = {"dataset": 4, "derive": 2, "dsclass": 3, "fapp": 2}
        for _ in range(cfg["n_internal"]):
            k = r.choices(kinds, [weights.get(x, 1) for x in kinds])[0]
            getattr(self, "g_" + k)()
        root = self.g_dataset(root=True)
        roots = [root]
        others = [n["id"] for n in self.nodes if n["id"] != root and (self.info[n["id"]]["is_ds"] or n["id"] in self.unused)]
        r.shuffle(others)
        roots += others[: r.randint(0, 2)]
        return {"nodes": self.nodes, "roots": roots}


def gen_spec(rng, cfg):
    """Rejection sampling against the generator invariants (deterministic: same PRNG stream)."""
    for _ in range(50):
        spec = SpecGen(rng, cfg).generate()
        if spec_ok(spec):
            break
    # the process ENVIRONMENT the program runs in (what a deployment configures, not the program): the stdlib logging level
    # of the loggers labrea writes to, logging.disable(), RuntimeWarnings turned into errors.  None of it may change what
    # the properties talk about.
    if cfg.get("env") is not False and rng.random() < 0.2:
        # (options handed over as a Mapping that is no dict -- ChainMap, UserDict -- were tried and withdrawn: confectioner.mix treats
        #  a non-dict base as a plain value, so WithOptions loses the caller's options on the unchanged tree; the properties speak
        #  of option DICTIONARIES)
        spec["env"] = {"log_level": rng.choice(["DEBUG", "INFO", None]), "log_disable": rng.random() < 0.3, "warn_error": rng.random() < 0.4}
    return spec


def spec_stats(spec):
    kinds = {}
    for n in spec["nodes"]:
        kinds[n["k"]] = kinds.get(n["k"], 0) + 1
    return kinds


def node_by_id(spec, nid):
    for n in spec["nodes"]:
        if n["id"] == nid:
            return n
    raise KeyError(nid)


def children(n):
    """Ids of nodes a node refers to."""
    out = []
    k = n["k"]
    if k == "opt":
        d = n.get("default") or {}
        if d.get("t") == "expr":
            out.append(d["n"])
        dom = n.get("domain") or {}
        if dom.get("t") == "expr":
            out.append(dom["n"])
    elif k == "apply":
        out.append(n["src"])
        out.extend(_fn_children(n["fn"]))
    elif k == "bind":
        out.append(n["src"])
        out.extend(n["table"].values())
        out.append(n["default"])
    elif k == "switch":
        if isinstance(n["dispatch"], dict):
            out.append(n["dispatch"]["n"])
        out.extend(v for _, v in n["lookup"])
        if n.get("default") is not None:
            out.append(n["default"])
    elif k == "case":
        out.append(n["dispatch"])
        for pred, res in n["cases"]:
            if pred["t"] == "param":
                out.append(pred["n"])
            out.append(res)
        if n.get("default") is not None:
            out.append(n["default"])
    elif k == "coalesce":
        out.extend(n["members"])
    elif k in ("list", "tuple"):
        out.extend(n["items"])
    elif k == "dict":
        out.extend(v for _, v in n["items"])
    elif k == "dsclass":
        out.extend(v for part in ("fields", "plain", "mixin") for _, v in n[part])
        if n.get("base"):
            out.append(n["base"])
    elif k == "map":
        out.append(n["target"])
        out.extend(n["iterables"].values())
    elif k == "template":
        out.extend(n.get("params", {}).values())
    elif k in ("withopts", "cached"):
        out.append(n["inner"])
    elif k == "dataset":
        out.extend(n.get("args", {}).values())
        out.extend(n.get("effects_opt", []))
        if n.get("callback_opt"):
            out.append(n["callback_opt"])
        if n.get("wraps"):
            out.append(n["wraps"])
        if isinstance(n.get("returns"), dict):
            out.append(n["returns"]["node"])  # (referred to, never evaluated: the object itself is the value)
        if isinstance(n.get("dispatch"), dict):
            out.append(n["dispatch"]["n"])
        for _, impl in n.get("overloads", []):
            if "n" in impl:
                out.append(impl["n"])
            else:
                out.extend(impl.get("args", {}).values())
    elif k == "derive":
        out.append(n["base"])
    elif k == "namespace":
        out.extend(m["n"] for m in n["members"] if m["t"] == "expr")
    elif k == "fapp":
        if n["func"]["t"] == "pick":
            out.append(n["func"]["n"])
        out.extend(p["n"] for p in n["pos"] if "n" in p)
        out.extend(n["kw"].values())
    return out


def dsclass_members(by, n):
    """name -> node id of the members a dataset class really has (own body > mixin > inherited)."""
    out = dict(dsclass_members(by, by[n["base"]])) if n.get("base") else {}
    out.update({nm: v for nm, v in n["mixin"]})
    out.update({nm: v for nm, v in n["fields"] + n["plain"]})
    return out


LIB_STEPS = [
    # (expression over labrea.functions as F and the importable user functions in labsim.c20rt as _s; {p}: an Evaluatable)
    "F.reduce(_s.pair)", "F.reduce(_s.pair, initial=0)", "F.reduce(_s.pair, initial={p})", "F.reduce(_s.pair, initial={p})",
    "F.map(_s.tag) + _s.step(_s.collect1)", "F.filter(_s.truthy) + _s.step(_s.collect1)", "F.flatmap(_s.twice) + _s.step(_s.collect1)",
    "F.flatten + _s.step(_s.collect1)", "F.get(0, 'dflt')", "F.get({p}, None)", "F.get_from({p}, 'nf')", "F.partial(_s.pair, {p})",
    "F.ensure(_s.truthy, 'falsy')", "F.call_method('upper')",
    # user functions that happen to be NAMED like ready-made steps of labrea.functions
    "_s.pstep(_s.flatten)", "_s.pstep(_s.length)", "_s.pstep(_s.negate)", "_s.pstep(_s.flatten)", "_s.pstep(_s.length)",
]
# helpers that close over a lambda / local function: their steps cannot be pickled (KF-C20-functions-helpers-close-over-lambdas)
LIB_STEPS_LOCAL = [
    "F.all(F.instance_of(int), F.gt(0))", "F.any(F.instance_of(str), F.eq({p}))", "F.invert(F.is_in({p}))",
    "F.append({p}) + _s.step(_s.collect1)", "F.concat({p}) + _s.step(_s.collect1)", "F.one_of(1, {p})", "F.into(_s.collect)",
]


def _fn_children(f):
    if f["t"] == "lib":
        return list(f["refs"].values())
    if f["t"] == "step":
        return list(f["params"].values())
    if f["t"] == "pipeline":
        return [c for s in f["steps"] for c in _fn_children(s)]
    if f["t"] == "expr":
        return [f["n"]]
    return []


def prune(spec):
    """Drop nodes unreachable from the roots (keeps ids)."""
    by = {n["id"]: n for n in spec["nodes"]}
    keep = set()
    stack = list(spec["roots"])
    while stack:
        i = stack.pop()
        if i in keep or i not in by:
            continue
        keep.add(i)
        stack.extend(children(by[i]))
    out = {"nodes": [copy.deepcopy(n) for n in spec["nodes"] if n["id"] in keep], "roots": list(spec["roots"])}
    if spec.get("env"):
        out["env"] = dict(spec["env"])  # (the environment the program runs in travels with it)
    if spec.get("leaf_calls"):
        out["leaf_calls"] = True
    return out


def program_key_paths(spec):
    """Every dotted key the program mentions (option keys, template references, pre-set paths, Map keys)."""
    out = set()
    for n in spec["nodes"]:
        k = n["k"]
        if k == "opt":
            out.add(n["key"])
            d = n.get("default") or {}
            if d.get("t") == "tmpl":
                out.update(r for r in U.template_refs(d["s"]) if not r.startswith(":"))
        elif k == "template":
            out.update(r for r in U.template_refs(n["text"]) if not r.startswith(":"))
        elif k == "namespace":
            out.update(namespace_keys(n))
        elif k == "switch" and isinstance(n["dispatch"], str):
            out.add(n["dispatch"])
        elif k == "dataset":
            if isinstance(n.get("dispatch"), str):
                out.add(n["dispatch"])
            for f in ("options", "default_options"):
                out.update(_preset_paths(n.get(f) or {}))
        elif k in ("withopts", "derive"):
            out.update(_preset_paths(n["options"]))
        elif k == "map":
            out.update(n["iterables"])
    return out


def _preset_paths(d):
    """Paths of a pre-set dictionary plus the keys its templated values refer to."""
    out = set(U.all_paths(d))
    for p in list(out):
        v = U.lookup(p, d)[1]
        if isinstance(v, str):
            out.update(U.template_refs(v))
    return out


def scalar_at_section_prefix(spec, dictionaries):
    """Does some dictionary hold a non-container value at a proper prefix of a key the program mentions?"""
    paths = program_key_paths(spec)
    for o in dictionaries:
        pool = set(paths)
        # template references inside the dictionary's own values count as program reads
        for p in U.all_paths(o):
            v = U.lookup(p, o)[1]
            if isinstance(v, str):
                pool.update(U.template_refs(v))
        for key in pool:
            segs = key.split(".")
            for i in range(1, len(segs)):
                ok, v = U.lookup(".".join(segs[:i]), o)
                if ok and not isinstance(v, (dict, list)):
                    return True
    return False


def may_be_unhashable(by, nid, seen=None):
    """Can this node evaluate to an unhashable value (given type-consistent dictionaries)?"""
    seen = seen if seen is not None else set()
    if nid in seen:
        return False
    seen.add(nid)
    n = by[nid]
    k = n["k"]
    if k == "val":
        return isinstance(n["v"], (list, dict))
    if k in ("alloptions", "list", "dict"):
        return True
    if k == "opt":
        if n["key"] in U.WHOLE_KEYS:
            return True
        d = n.get("default") or {}
        if d.get("t") in ("const", "factory") and isinstance(d["v"], (list, dict)):
            return True
        if d.get("t") == "expr":
            return may_be_unhashable(by, d["n"], seen)
        return False
    if k == "dataset":
        if n.get("returns") is not None:
            return True  # (a list holding something uncopyable / whatever another node evaluates to)
        if n.get("body") == "selector":
            return any(may_be_unhashable(by, c, seen) for c in n.get("args", {}).values())
        return any("n" in impl and may_be_unhashable(by, impl["n"], seen) for _, impl in n.get("overloads", []))
    if k in ("derive", "apply", "map", "template", "fapp"):
        return False if k != "derive" else may_be_unhashable(by, n["base"], seen)
    if k == "switch":
        return any(may_be_unhashable(by, v, seen) for _, v in n["lookup"]) or (n.get("default") is not None and may_be_unhashable(by, n["default"], seen))
    if k == "case":
        return any(may_be_unhashable(by, v, seen) for _, v in n["cases"]) or (n.get("default") is not None and may_be_unhashable(by, n["default"], seen))
    if k == "bind":
        return any(may_be_unhashable(by, v, seen) for v in list(n["table"].values()) + [n["default"]])
    if k in ("coalesce", "tuple"):
        return any(may_be_unhashable(by, v, seen) for v in n.get("members", n.get("items", [])))
    if k in ("cached", "withopts"):
        return may_be_unhashable(by, n["inner"], seen)
    return True


def selector_positions(n):
    """Node ids used by `n` as a dispatch value / bind source (must be hashable)."""
    k = n["k"]
    if k == "switch" and isinstance(n["dispatch"], dict):
        return [n["dispatch"]["n"]]
    if k == "case":
        return [n["dispatch"]]
    if k == "bind":
        return [n["src"]]
    if k == "dataset" and isinstance(n.get("dispatch"), dict):
        return [n["dispatch"]["n"]]
    return []


def hashable_required_keys(spec):
    """Option keys whose value can reach a selector position (dispatch value, bind source, case subject)."""
    by = {n["id"]: n for n in spec["nodes"]}
    out, seen = set(), set()

    def visit(nid):
        if nid in seen or nid not in by:
            return
        seen.add(nid)
        n = by[nid]
        if n["k"] == "opt":
            out.add(n["key"])
            d = n.get("default") or {}
            if d.get("t") == "tmpl":
                out.update(r for r in U.template_refs(d["s"]) if not r.startswith(":"))
        elif n["k"] == "template":
            out.update(r for r in U.template_refs(n["text"]) if not r.startswith(":"))
        for c in children(n):
            visit(c)

    for n in spec["nodes"]:
        for p in selector_positions(n):
            visit(p)
        if n["k"] in ("switch", "dataset") and isinstance(n.get("dispatch"), str):
            out.add(n["dispatch"])
    return out


def namespace_keys(n):
    """Dotted keys a namespace node reads."""
    return [f"{n['name']}.{m['name']}" + (".X" if m["t"] == "sub" else "") for m in n["members"]]


def spec_ok(spec):
    """Generator invariants that the shrinker must preserve (each one answers a soundness hazard)."""
    import random

    g = SpecGen(random.Random(0), {})
    g.nodes = spec["nodes"]
    by = {n["id"]: n for n in spec["nodes"]}
    for n in spec["nodes"]:
        if any(c not in by for c in children(n)):
            return False
        if any(may_be_unhashable(by, sp) for sp in selector_positions(n)):
            return False  # hazard 4: dispatch values are hashable
        k = n["k"]
        if k == "template":
            if not all(g._str_stable(c) for c in n.get("params", {}).values()):
                return False
        elif k == "derive":
            if by[n["base"]]["k"] not in ("dataset", "derive"):
                return False
        elif k == "map":
            for it in n["iterables"].values():
                m = by[it]
                if not ((m["k"] == "val" and isinstance(m["v"], list)) or (m["k"] == "opt" and m["key"] == "L" and isinstance((m.get("default") or {}).get("v"), list))):
                    return False
        elif k == "opt" and n.get("domain") and n.get("default"):
            d, dom = n["default"], n["domain"]
            if dom["t"] == "expr" and by[dom["n"]]["k"] == "opt" and by[dom["n"]]["key"] == "DOM" and d["t"] == "const":
                if U.canon(d["v"]) not in [U.canon(x) for x in (by[dom["n"]].get("default") or {}).get("v", [])]:
                    return False
            elif not (d["t"] in ("const", "factory") and dom["t"] in ("container", "pred") and U.canon(d["v"]) in [U.canon(x) for x in dom["v"]]):
                return False
        elif k == "dataset":
            for _, impl in n.get("overloads", []):
                if impl.get("via") == "overload" and by[impl["n"]]["k"] not in ("dataset", "derive"):
                    return False
    return True


def live_reads(spec, root):
    """Keys whose CALLER-supplied value can reach a reader below `root` (over-approximation).

    Walks the graph from the root carrying the set of leaf paths forced by enclosing pre-set options
    (dataset(options=), with_options, WithOptions(force), Map keys); a read of key k is 'live' unless k
    itself is forced on that path.  Returns (live keys, forced-somewhere keys)."""
    by = {n["id"]: n for n in spec["nodes"]}
    live, forced_any = set(), set()
    seen = set()

    def reads_of(n):
        k = n["k"]
        out = []
        if k == "opt":
            out.append(n["key"])
            d = n.get("default") or {}
            if d.get("t") == "tmpl":
                out.extend(r for r in U.template_refs(d["s"]) if not r.startswith(":"))
        elif k == "template":
            out.extend(r for r in U.template_refs(n["text"]) if not r.startswith(":"))
        elif k == "switch" and isinstance(n["dispatch"], str):
            out.append(n["dispatch"])
        elif k == "dataset" and isinstance(n.get("dispatch"), str):
            out.append(n["dispatch"])
        elif k == "alloptions":
            out.append("*")
        elif k == "namespace":
            out.extend(namespace_keys(n))
        return out

    def visit(nid, forced):
        key = (nid, tuple(sorted(forced)))
        if key in seen or nid not in by:
            return
        seen.add(key)
        n = by[nid]
        k = n["k"]
        inner_forced = set(forced)
        def template_refs_of(d):
            return _preset_paths(d) - set(U.all_paths(d)) | {r for p in U.all_paths(d) for r in ([x for x in U.template_refs(U.lookup(p, d)[1])] if isinstance(U.lookup(p, d)[1], str) else [])}

        if k == "dataset":
            new = set(U.leaf_paths(n.get("options") or {}))
            inner_forced |= new
            # template references inside pre-sets resolve against the MIXED options: a reference is irrelevant to the
            # caller only if the key is forced here or further out; a default pre-set never shields a key from the caller
            for r in template_refs_of(n.get("options") or {}) | template_refs_of(n.get("default_options") or {}):
                if r not in inner_forced:
                    live.add(r)
        elif k == "derive" and n["how"] == "with_options":
            inner_forced |= set(U.leaf_paths(n["options"]))
        elif k == "withopts" and n.get("force", True):
            inner_forced |= set(U.leaf_paths(n["options"]))
        if k in ("derive", "withopts"):
            for r in template_refs_of(n["options"]):
                if r not in inner_forced:
                    live.add(r)
        forced_any.update(inner_forced)
        for r in reads_of(n):
            if r not in inner_forced:
                live.add(r)
        if k == "map":
            for it in n["iterables"].values():
                visit(it, forced)
            visit(n["target"], inner_forced | set(n["iterables"]))
            forced_any.update(n["iterables"])
            return
        for c in children(n):
            visit(c, inner_forced)

    visit(root, set())
    return live, forced_any


def caller_irrelevant_paths(spec, root):
    """Leaf paths whose caller-supplied SCALAR value cannot influence `root`: forced on every path to every
    reader, and not a prefix / extension of any live read."""
    live, forced_any = live_reads(spec, root)
    if "*" in live:
        return []
    out = []
    for p in forced_any:
        if p in live:
            continue
        if any(q.startswith(p + ".") or p.startswith(q + ".") for q in live):
            continue
        out.append(p)
    return sorted(out)

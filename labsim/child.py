"""Fresh-interpreter side of cross-process checks (C03 iv, C20).

usage: python -m labsim.child <job.json>   -> prints one JSON document on stdout.
The parent chooses PYTHONHASHSEED for this interpreter; everything else is rebuilt from the job file.
"""
import json
import sys


def main():
    with open(sys.argv[1]) as f:
        job = json.load(f)
    mode = job["mode"]
    if mode == "c03":
        from .props.c03 import fingerprint_log

        out = [fingerprint_log(case) for case in job["cases"]]
    elif mode == "c20":
        from .props.c20 import child_continue, child_produce

        out = [child_produce(item) if item.get("produce") else child_continue(item) for item in job["items"]]
    else:
        raise SystemExit(f"unknown mode {mode}")
    json.dump({"hashseed": __import__("os").environ.get("PYTHONHASHSEED"), "out": out}, sys.stdout)


if __name__ == "__main__":
    main()

"""history-sim: shared parts of the properties that run generated histories against one long-lived
world (warm) and compare with freshly built twins (cold)."""
import copy

from . import gen
from . import universe as U
from .core import Property


def gen_history(rng, cfg, spec, n_ops=None, ops_kinds=("evaluate",), dictgen=None):
    """Evaluation ops on the roots with near-pair dictionaries."""
    dg = dictgen or U.DictGen(rng, cfg)
    dg.no_list_keys = set(dg.no_list_keys) | gen.hashable_required_keys(spec)
    o = dg.fresh()
    ops = []
    n = n_ops if n_ops is not None else cfg["n_ops"]
    for _ in range(n):
        o, m = dg.mutate(o)
        node = rng.choice(spec["roots"])
        kind = rng.choice(ops_kinds)
        ops.append({"op": kind, "node": node, "o": copy.deepcopy(o), "mut": m})
    return ops


def family_root(spec, nid):
    """The dataset a chain of derivations starts from."""
    by = {n["id"]: n for n in spec["nodes"]}
    while by[nid]["k"] == "derive":
        nid = by[nid]["base"]
    return nid


def late_registrations(rng, spec, ops, count=(1, 2), via_derived=0.5, before_first_use=True):
    """Insert register ops (overload decorator form) into a history: on dispatching datasets and on datasets DERIVED from
    them (with_options / with_default_options share the overload table with their origin, in both directions)."""
    by = {n["id"]: n for n in spec["nodes"]}
    dispatching = [n["id"] for n in spec["nodes"] if n["k"] == "dataset" and n.get("dispatch") is not None and n.get("body") != "selector"]
    derived = [n["id"] for n in spec["nodes"] if n["k"] == "derive" and family_root(spec, n["id"]) in dispatching]
    if not dispatching or not ops:
        return 0
    leaves = [n["id"] for n in spec["nodes"] if n["k"] == "opt"]
    made = 0
    for j in range(rng.randint(*count)):
        ds = rng.choice(derived) if derived and rng.random() < via_derived else rng.choice(dispatching)
        alias = rng.choice(U.DISPATCH_VALUES[:5])
        args = {"a": rng.choice(leaves)} if leaves and rng.random() < 0.8 else {}
        # (stored values are not invalidated by a registration: unless a property models that, registrations come after the
        #  derivations — which are part of the program — and before the first evaluation)
        at = 0 if before_first_use else rng.randrange(0, len(ops) + 1)
        ops.insert(at, {"op": "register", "ds": ds, "alias": alias, "impl": {"fn": f"late_ov{j}", "args": args}})
        made += 1
    return made


class HistoryProperty(Property):
    ENGINE = "history-sim"

    # ------------------------------------------------------------------ generic shrinking
    def shrink_candidates(self, case):
        ops = case["ops"]
        n = len(ops)
        # 1. drop chunks of ops (ddmin style: halves, quarters, singles)
        size = n // 2
        while size >= 1:
            for start in range(0, n, size):
                cand = ops[:start] + ops[start + size:]
                if cand and len(cand) < n:
                    yield self._with(case, ops=self._reindex(case, cand, start, size))
            size //= 2
        # 2. one root only / drop unreachable nodes
        spec = case["spec"]
        used_roots = []
        for op in ops:
            if "node" in op and op["node"] not in used_roots:
                used_roots.append(op["node"])
        if used_roots and set(used_roots) != set(spec["roots"]):
            yield self._with(case, spec=gen.prune({"nodes": spec["nodes"], "roots": used_roots}))
        # 3. simplify dictionaries: remove one leaf path from one op (and all later identical ones)
        for i, op in enumerate(ops):
            if "o" not in op:
                continue
            for p in U.leaf_paths(op["o"]):
                new_ops = copy.deepcopy(ops)
                U.del_path(new_ops[i]["o"], p)
                yield self._with(case, ops=new_ops)
                # the same deletion in every op
                new_ops2 = copy.deepcopy(ops)
                changed = False
                for op2 in new_ops2:
                    if "o" in op2 and U.del_path(op2["o"], p):
                        changed = True
                if changed:
                    yield self._with(case, ops=new_ops2)
            for k in list(op["o"]):
                if isinstance(op["o"][k], dict) and op["o"][k]:
                    new_ops = copy.deepcopy(ops)
                    del new_ops[i]["o"][k]
                    yield self._with(case, ops=new_ops)
        # 4. simplify the spec (candidates must keep the generator's invariants: they answer soundness hazards)
        for cand in self._spec_candidates(case):
            if self.spec_valid(cand["spec"]):
                yield cand

    def _reindex(self, case, cand_ops, start, size):
        return copy.deepcopy(cand_ops)

    REQUIRED_CACHE = None  # e.g. "recording": every dataset of a (shrunk) spec must keep this backend kind

    def spec_valid(self, spec):
        if self.REQUIRED_CACHE is not None:
            if any(n["k"] == "dataset" and n.get("cache") != self.REQUIRED_CACHE for n in spec["nodes"]):
                return False
        return gen.spec_ok(spec)

    @staticmethod
    def _with(case, **kw):
        c = dict(case)
        c.update(kw)
        return c

    def _spec_candidates(self, case):
        spec = case["spec"]
        roots = set(spec["roots"])
        used = {op["node"] for op in case["ops"] if "node" in op}
        for idx in range(len(spec["nodes"]) - 1, -1, -1):
            n = spec["nodes"][idx]
            nid = n["id"]
            # (a) replace a whole subtree by a constant leaf
            if nid not in used and n["k"] not in ("val",) and not self._is_ds_base(spec, nid):
                for leaf in ({"k": "val", "v": 0},):
                    yield self._replace(case, idx, dict(leaf, id=nid))
            # (b) replace a node by one of its children (hoist)
            if nid not in used and not self._is_ds_base(spec, nid):
                for c in gen.children(n)[:3]:
                    yield self._redirect(case, nid, c)
            # (c) drop features of datasets / options
            for cand in self._feature_drops(n):
                yield self._replace(case, idx, cand)

    @staticmethod
    def _is_ds_base(spec, nid):
        """Is the node used somewhere that requires a Dataset (derive base / overload via decorator)?"""
        for n in spec["nodes"]:
            if n["k"] == "derive" and n["base"] == nid:
                return True
        return False

    def _replace(self, case, idx, node):
        spec = copy.deepcopy(case["spec"])
        spec["nodes"][idx] = node
        return self._with(case, spec=gen.prune(spec))

    def _redirect(self, case, nid, child):
        """Every reference to nid now refers to child."""
        spec = copy.deepcopy(case["spec"])

        def sub(x):
            if isinstance(x, dict):
                return {k: sub(v) for k, v in x.items() if True} if x.get("id") != nid else x
            if isinstance(x, list):
                return [sub(v) for v in x]
            if x == nid:
                return child
            return x

        nodes = []
        for n in spec["nodes"]:
            if n["id"] == nid:
                nodes.append(n)
                continue
            m = sub(n)
            m["id"] = n["id"]
            nodes.append(m)
        spec["nodes"] = nodes
        return self._with(case, spec=gen.prune(spec))

    @staticmethod
    def _feature_drops(n):
        k = n["k"]
        if k == "dataset":
            for f in ("returns", "fails_if", "mutates", "callback_opt", "callback", "effects", "effects_opt", "log_effects", "options", "default_options", "overloads", "cache", "abstract"):
                if n.get(f):
                    m = copy.deepcopy(n)
                    del m[f]
                    yield m
            if n.get("dispatch") is not None and not n.get("overloads") and not n.get("abstract"):
                m = copy.deepcopy(n)
                del m["dispatch"]
                yield m
            for a in list(n.get("args", {})):
                if n.get("body") == "selector":
                    break
                m = copy.deepcopy(n)
                del m["args"][a]
                yield m
            for i in range(len(n.get("overloads", []))):
                m = copy.deepcopy(n)
                del m["overloads"][i]
                yield m
        elif k == "opt":
            for f in ("domain", "default"):
                if n.get(f):
                    m = copy.deepcopy(n)
                    del m[f]
                    yield m
        elif k in ("switch", "case"):
            if n.get("default") is not None:
                m = copy.deepcopy(n)
                m["default"] = None
                yield m
            key = "lookup" if k == "switch" else "cases"
            for i in range(len(n[key])):
                if len(n[key]) > 1:
                    m = copy.deepcopy(n)
                    del m[key][i]
                    yield m
        elif k in ("coalesce", "list", "tuple", "dict"):
            key = "members" if k == "coalesce" else "items"
            for i in range(len(n[key])):
                if len(n[key]) > 1:
                    m = copy.deepcopy(n)
                    del m[key][i]
                    yield m
        elif k == "dsclass":
            if n.get("base"):
                m = copy.deepcopy(n)
                del m["base"]
                yield m
            for part in ("fields", "plain", "mixin"):
                for i in range(len(n[part])):
                    if sum(len(n[q]) for q in ("fields", "plain", "mixin")) > 1:
                        m = copy.deepcopy(n)
                        del m[part][i]
                        yield m
        elif k == "map":
            for key in list(n["iterables"]):
                if len(n["iterables"]) > 1:
                    m = copy.deepcopy(n)
                    del m["iterables"][key]
                    yield m
        elif k in ("withopts", "derive"):
            for p in U.leaf_paths(n["options"]):
                if len(U.leaf_paths(n["options"])) > 1:
                    m = copy.deepcopy(n)
                    U.del_path(m["options"], p)
                    yield m
        elif k == "template":
            pass

    # ------------------------------------------------------------------ samples
    @staticmethod
    def sample_of(case, limit_ops=6):
        return {
            "spec_kinds": gen.spec_stats(case["spec"]),
            "roots": case["spec"]["roots"],
            "ops": [{k: v for k, v in op.items() if k != "mut"} for op in case["ops"][:limit_ops]],
            "n_ops": len(case["ops"]),
        }

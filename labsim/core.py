"""Generic seeded-search driver shared by all properties.

One integer (VERIF_SEED) decides everything: run i of property P uses PRNG seed
sha256(P, VERIF_SEED, i).  The parent process never executes a case itself: batches of runs, every
candidate of the minimiser, every corpus case and every replay execute in a process *freshly forked
from the pristine parent*, so that state leaking between runs (labrea keeps process-global state, and
a change to labrea may add more) cannot make a failure unrepeatable: a violation that needs the runs
executed before it in the same process is reported with that prefix of cases as part of the replay
file ("history across runs") and minimised as a whole.

Exit codes of registered commands: 0 = held on everything explored (known findings are reported, not
failed), 1 = VIOLATION, 2 = harness error.
"""
import faulthandler
import hashlib
import json
import multiprocessing as mp
import multiprocessing.connection as mpc
import os
import random
import subprocess
import sys
import time
import traceback

VERIF = os.path.dirname(os.path.dirname(os.path.abspath(__file__)))
KNOWN_FILE = os.path.join(VERIF, "known_findings.json")
REPLAY_DIR = os.path.join(VERIF, "replays")
EVIDENCE_DIR = os.path.join(VERIF, "evidence")
CTX = mp.get_context("fork")


def run_seed(prop_id, base_seed, i):
    h = hashlib.sha256(f"{prop_id}:{base_seed}:{i}".encode()).digest()
    return int.from_bytes(h[:8], "big")


def h64(obj):
    return int.from_bytes(hashlib.sha256(repr(obj).encode()).digest()[:8], "big")


class HarnessError(Exception):
    pass


class Violation(dict):
    """{'kind': str, 'detail': {...}, 'signature': str|None}"""


class Result:
    __slots__ = ("violations", "stats", "digest", "distinct", "sample", "faults")

    def __init__(self):
        self.violations = []
        self.stats = {}
        self.digest = ""
        self.distinct = {}  # measure name -> list of 64-bit hashes
        self.sample = None
        self.faults = {}  # fault kind -> times fired

    def bump(self, key, n=1):
        self.stats[key] = self.stats.get(key, 0) + n

    def fault(self, key, n=1):
        self.faults[key] = self.faults.get(key, 0) + n

    def seen(self, measure, obj):
        self.distinct.setdefault(measure, []).append(h64(obj))

    def violate(self, kind, **detail):
        v = Violation(kind=kind, detail=detail, signature=None)
        self.violations.append(v)
        return v

    def to_dict(self):
        return {
            "violations": [json.loads(json.dumps(dict(v), default=str)) for v in self.violations],
            "stats": self.stats, "digest": self.digest, "distinct": self.distinct,
            "sample": json.loads(json.dumps(self.sample, default=str)), "faults": self.faults,
        }


class Property:
    """Base class: a property = generator + deterministic executor with oracles + shrinker."""

    ID = "C00"
    LEVEL = "exploration"
    ENGINE = "history-sim"
    TECHNIQUE = ""
    LEVEL_TEXT = ""
    LEVEL_NOTE = ""
    DESIGN_REF = ""
    RULE = ""
    ASSUMPTIONS = []
    REAL = ["labrea/* (all modules, unmodified)", "confectioner"]
    STUBS = ["user callables (bodies, callbacks, effects, steps, predicates, factories, bind functions)"]
    QUICK = {"runs": 400, "wall": 40}
    THOROUGH = {"runs": 200000, "wall": 480}
    NONTRIVIAL_MEASURE = "history"

    def gen_case(self, rng, tier):
        raise NotImplementedError

    def run_case(self, case):
        raise NotImplementedError

    def shrink_candidates(self, case):
        return iter(())

    def signature(self, case, violation):
        """Culprit signature of a (minimised) counterexample, used to match known findings."""
        return None

    def known_probes(self):
        """[(finding id, case)] deterministic reproducers of open known findings."""
        return []

    def extra_evidence(self, tier, seed):
        return {}


# --------------------------------------------------------------------------- known findings
def load_known():
    try:
        with open(KNOWN_FILE) as f:
            return json.load(f)
    except FileNotFoundError:
        return {"findings": []}


def match_known(prop_id, violation, known):
    for f in known.get("findings", []):
        if f.get("status") != "open" or (f.get("property") != prop_id and prop_id not in f.get("also", [])):
            continue
        m = f.get("match", {})
        if m.get("kind") and m["kind"] != violation["kind"]:
            continue
        if not m.get("signature"):
            continue  # an entry without a specific signature suppresses nothing
        if m["signature"] != violation.get("signature"):
            continue
        return f
    return None


# --------------------------------------------------------------------------- isolation
def _child_main(conn, fn, args):
    try:
        faulthandler.dump_traceback_later(900, exit=True)
        out = ("ok", fn(*args))
    except BaseException:  # noqa: BLE001
        out = ("err", traceback.format_exc())
    try:
        conn.send(out)
    finally:
        conn.close()
        os._exit(0)


def spawn(fn, args):
    """Start fn(*args) in a process forked from this (pristine) one. Returns (process, connection)."""
    parent, child = CTX.Pipe(duplex=False)
    p = CTX.Process(target=_child_main, args=(child, fn, args))
    p.start()
    child.close()
    return p, parent


def collect(p, conn, timeout):
    if not conn.poll(timeout):
        p.kill()
        p.join()
        raise HarnessError(f"isolated execution exceeded {timeout} s")
    try:
        status, payload = conn.recv()
    except EOFError:
        p.join()
        raise HarnessError(f"isolated execution died (exit code {p.exitcode})")
    finally:
        conn.close()
    p.join()
    if status == "err":
        raise HarnessError(payload)
    return payload


def isolated(fn, *args, timeout=300):
    p, conn = spawn(fn, args)
    return collect(p, conn, timeout)


def _exec_sequence(prop, cases):
    """Run cases one after the other in THIS process; result dict of the last one."""
    out = None
    for c in cases:
        out = prop.run_case(c)
    return out.to_dict()


def run_isolated(prop, case, prefix=()):
    return isolated(_exec_sequence, prop, list(prefix) + [case])


def violation_of(resd, kind=None):
    for v in resd["violations"]:
        if kind is None or v["kind"] == kind:
            return v
    return None


# --------------------------------------------------------------------------- minimisation
def minimise(prop, case, prefix, kind, want_sig=None, budget_runs=500, budget_s=40.0):
    """Greedy delta debugging; a candidate is accepted only if a violation of the same kind AND the same
    culprit signature recurs when the candidate is executed in a freshly forked process (so that shrinking
    cannot drift from an unknown violation into an open known finding of the same kind, or back)."""
    t0 = time.time()
    runs = [0]

    def fails(c, pre):
        runs[0] += 1
        try:
            resd = run_isolated(prop, c, pre)
        except HarnessError:
            return False
        return any(v["kind"] == kind and prop.signature(c, v) == want_sig for v in resd["violations"])

    def out_of_budget():
        return runs[0] >= budget_runs or time.time() - t0 > budget_s

    # 1. the prefix (cases executed earlier in the same process): drop chunks
    prefix = list(prefix)
    size = max(1, len(prefix) // 2)
    while prefix and size >= 1 and not out_of_budget():
        changed = False
        for start in range(0, len(prefix), size):
            cand = prefix[:start] + prefix[start + size:]
            if fails(case, cand):
                prefix = cand
                changed = True
                break
            if out_of_budget():
                break
        if not changed:
            size //= 2
    # 2. the failing case itself
    cur = case
    improved = True
    while improved and not out_of_budget():
        improved = False
        for cand in prop.shrink_candidates(cur):
            if fails(cand, prefix):
                cur = cand
                improved = True
                break
            if out_of_budget():
                break
    return cur, prefix, runs[0]


# --------------------------------------------------------------------------- batches
def _gen(prop, base_seed, tier, i):
    seed = run_seed(prop.ID, base_seed, i)
    case = prop.gen_case(random.Random(seed), tier)
    case["seed"] = seed
    case["run_index"] = i
    return case


class RunTimeout(BaseException):
    pass


def _alarm(signum, frame):
    raise RunTimeout()


RUN_TIMEOUT_S = 120


def _batch(prop, base_seed, tier, start, count, deadline, known):
    import signal

    signal.signal(signal.SIGALRM, _alarm)
    agg = {"start": start, "runs": 0, "stats": {}, "faults": {}, "distinct": {}, "raw": None, "samples": [], "error": None, "known": {}}
    for i in range(start, start + count):
        if time.time() > deadline:
            break
        try:
            signal.setitimer(signal.ITIMER_REAL, RUN_TIMEOUT_S)
            try:
                case = _gen(prop, base_seed, tier, i)
                res = prop.run_case(case)
            finally:
                signal.setitimer(signal.ITIMER_REAL, 0)
        except RunTimeout:
            # a single simulated run that does not finish is cut (a budget, not a verdict) and reported in the evidence
            agg["stats"]["runs_cut_at_wall_clock_limit"] = agg["stats"].get("runs_cut_at_wall_clock_limit", 0) + 1
            continue
        except Exception:
            # the run could not be carried out (the harness, or labrea while the program was being built, raised): that is
            # no verdict; the search goes on -- a tree that breaks a property may also break the harness for SOME programs --
            # and the first such trace is reported (exit 2 unless a violation is found as well)
            if agg["error"] is None:
                agg["error"] = {"run_index": i, "trace": traceback.format_exc()}
            agg["stats"]["runs_that_crashed"] = agg["stats"].get("runs_that_crashed", 0) + 1
            if agg["stats"]["runs_that_crashed"] > 25:
                break
            continue
        agg["runs"] += 1
        for k, v in res.stats.items():
            agg["stats"][k] = agg["stats"].get(k, 0) + v
        for k, v in res.faults.items():
            agg["faults"][k] = agg["faults"].get(k, 0) + v
        for k, v in res.distinct.items():
            agg["distinct"].setdefault(k, set()).update(v)
        if res.sample is not None and len(agg["samples"]) < 1:
            agg["samples"].append(json.loads(json.dumps(res.sample, default=str)))
        if res.violations:
            # an open known finding is reported and the search goes on; anything else stops it
            v = res.violations[0]
            v["signature"] = prop.signature(case, v)
            kf = match_known(prop.ID, v, known)
            if kf is not None:
                agg["known"][kf["id"]] = agg["known"].get(kf["id"], 0) + 1
                continue
            agg["raw"] = {"run_index": i, "case": case, "result": res.to_dict()}
            break
    agg["distinct"] = {k: list(v) for k, v in agg["distinct"].items()}
    return agg


def triage(prop, base_seed, tier, raw, batch_start, known):
    """Turn a violation seen inside a batch into a minimised, isolated, replayable entry."""
    case = raw["case"]
    kind = raw["result"]["violations"][0]["kind"]
    prefix = []
    reproducible = True
    if violation_of(run_isolated(prop, case), kind) is None:
        # needs the cases that ran before it in the same process: a history across runs
        prefix = [_gen(prop, base_seed, tier, j) for j in range(batch_start, raw["run_index"])]
        if violation_of(run_isolated(prop, case, prefix), kind) is None:
            reproducible = False
    if reproducible:
        sig0 = prop.signature(case, raw["result"]["violations"][0])
        small, prefix, nruns = minimise(prop, case, prefix, kind, want_sig=sig0)
        final = run_isolated(prop, small, prefix)
        v = next((x for x in final["violations"] if x["kind"] == kind and prop.signature(small, x) == sig0), None) or violation_of(final, kind)
    else:
        small, nruns, final = case, 0, raw["result"]
        v = raw["result"]["violations"][0]
    v = dict(v)
    v["signature"] = prop.signature(small, v)
    v["shrink_runs"] = nruns
    entry = {
        "violation": v, "case": small, "prefix": prefix, "orig_ops": len(case.get("ops", [])), "seed": case["seed"],
        "run_index": raw["run_index"], "digest": final["digest"], "reproducible_in_isolation": reproducible,
    }
    kf = match_known(prop.ID, v, known)
    if kf is not None and not prefix:
        entry["known"] = kf["id"]
    return entry


# --------------------------------------------------------------------------- replay files
def write_replay(prop, entry):
    os.makedirs(REPLAY_DIR, exist_ok=True)
    path = os.path.join(REPLAY_DIR, f"{prop.ID}-{entry['seed']}.json")
    doc = {
        "property": prop.ID,
        "seed": entry["seed"],
        "run_index": entry.get("run_index"),
        "expected": {"kind": entry["violation"]["kind"], "signature": entry["violation"].get("signature"), "digest": entry["digest"]},
        "violation": entry["violation"],
        "prefix": entry.get("prefix", []),
        "case": entry["case"],
    }
    with open(path, "w") as f:
        json.dump(doc, f, indent=1, default=str)  # never sort keys: key order of option dictionaries is part of a case
    return path


def replay(prop, path, quiet=False):
    """Execute a replay file directly (recorded spec / ops / faults / schedule, not the seed)."""
    with open(path) as f:
        doc = json.load(f)
    res = run_isolated(prop, doc["case"], doc.get("prefix", []))
    want = doc.get("expected", {})
    hit = [v for v in res["violations"] if v["kind"] == want.get("kind")]
    same_digest = res["digest"] == want.get("digest")
    if not quiet:
        print(f"replay {path}: violations={[v['kind'] for v in res['violations']]} digest={res['digest']} same_digest={same_digest}")
        for v in res["violations"][:3]:
            print(json.dumps(v, indent=1, default=str)[:3000])
    if hit:
        print(f"VIOLATION property={prop.ID} replay={path}")
        print(f"REPLAY-DIGEST {res['digest']} {'same' if same_digest else 'DIFFERENT'}")
        return 1
    print(f"replay did not reproduce a {want.get('kind')} violation")
    return 0


def verify_replay_fresh(prop, path):
    """Re-execute the replay file in a fresh interpreter: it must fail the same way, same digest."""
    env = dict(os.environ)
    env["PYTHONHASHSEED"] = "0"
    try:
        p = subprocess.run(
            [sys.executable, "-m", "labsim.main", prop.ID, "--replay", path, "--quiet"],
            cwd=VERIF, env=env, capture_output=True, text=True, timeout=300,
        )
    except subprocess.TimeoutExpired:
        return False, "timeout"
    ok = p.returncode == 1 and "REPLAY-DIGEST" in p.stdout and " same" in p.stdout
    return ok, (p.stdout + p.stderr)[-500:]


# --------------------------------------------------------------------------- driver
def drive(prop, tier, base_seed, workers=None):
    t0 = time.time()
    budget = prop.QUICK if tier == "quick" else prop.THOROUGH
    if os.environ.get("VERIF_RUNS"):
        budget = dict(budget, runs=int(os.environ["VERIF_RUNS"]))
    if os.environ.get("VERIF_WALL"):
        budget = dict(budget, wall=float(os.environ["VERIF_WALL"]))
    workers = workers or int(os.environ.get("VERIF_WORKERS", "16"))
    known = load_known()
    print(f"[{prop.ID}] tier={tier} VERIF_SEED={base_seed} engine={prop.ENGINE} workers={workers} budget={budget}", flush=True)
    agg = {"runs": 0, "stats": {}, "faults": {}, "distinct": {}, "violations": [], "known": [], "samples": [], "errors": []}
    known_lines = []
    replay_paths = []
    harness_error = None

    def finish(exit_code):
        wall = time.time() - t0
        write_evidence(prop, tier, base_seed, agg, wall, known_lines, replay_paths)
        rate = agg["runs"] / wall if wall > 0 else 0
        print(f"[{prop.ID}] runs={agg['runs']} wall={wall:.1f}s ({rate * 3600:.0f} runs/h) violations={len(agg['violations'])} "
              f"known={len(agg['known'])} exit={exit_code}")
        return exit_code

    try:
        # 1. deterministic probes of the open known findings (never affect the exit code)
        for fid, case in prop.known_probes():
            f = next((x for x in known.get("findings", []) if x.get("id") == fid and x.get("status") == "open"), None)
            if f is None:
                continue
            v = violation_of(run_isolated(prop, case), f.get("match", {}).get("kind"))
            if v is not None:
                known_lines.append(f"KNOWN-FINDING: property={prop.ID} {fid}: {f.get('what', '')}")
            else:
                print(f"[{prop.ID}] note: open known finding {fid} no longer reproduces on this tree")

        # 2. regression corpus: minimised counterexamples of repaired defects ("fixed:" entries) and
        #    hand-written probes; each must hold on the current tree.
        corpus_dir = os.path.join(VERIF, "corpus", prop.ID)
        n_corpus = 0
        if os.path.isdir(corpus_dir):
            for name in sorted(os.listdir(corpus_dir)):
                if not name.endswith(".json"):
                    continue
                path = os.path.join(corpus_dir, name)
                with open(path) as f:
                    doc = json.load(f)
                n_corpus += 1
                cres = run_isolated(prop, doc["case"], doc.get("prefix", []))
                for v in cres["violations"]:
                    v["signature"] = prop.signature(doc["case"], v)
                    if match_known(prop.ID, v, known) is None:
                        print(f"[{prop.ID}] corpus case fails again: kind={v['kind']} {json.dumps(v.get('detail'), default=str)[:800]}")
                        print(f"VIOLATION property={prop.ID} replay={path}")
                        agg["violations"].append({"violation": v})
                        replay_paths.append(path)
                        break
        agg["stats"]["corpus_cases"] = n_corpus
        if agg["violations"]:
            for line in known_lines:
                print(line)
            return finish(1)

        # 3. seeded search, batches in freshly forked processes
        deadline = t0 + budget["wall"]
        total = budget["runs"]
        batch = max(10, min(2000, total // (workers * 6) or 1))
        nxt = 0
        live = {}  # connection -> (process, start)
        raw_hits = []
        stop = False
        while (live or (nxt < total and time.time() < deadline)) and not harness_error:
            while not stop and len(live) < workers and nxt < total and time.time() < deadline:
                c = min(batch, total - nxt)
                p, conn = spawn(_batch, (prop, base_seed, tier, nxt, c, deadline, known))
                live[conn] = (p, nxt, time.time())
                nxt += c
            if not live:
                break
            ready = mpc.wait(list(live), timeout=5)
            now = time.time()
            for conn in list(live):
                p, start, began = live[conn]
                if conn in ready:
                    del live[conn]
                    try:
                        a = collect(p, conn, 10)
                    except HarnessError as e:
                        harness_error = f"batch starting at run {start}: {e}"
                        continue
                    agg["runs"] += a["runs"]
                    for k, v in a["stats"].items():
                        agg["stats"][k] = agg["stats"].get(k, 0) + v
                    for k, v in a["faults"].items():
                        agg["faults"][k] = agg["faults"].get(k, 0) + v
                    for k, v in a["distinct"].items():
                        agg["distinct"].setdefault(k, set()).update(v)
                    for fid, cnt in a["known"].items():
                        agg["stats"]["known_finding_hits:" + fid] = agg["stats"].get("known_finding_hits:" + fid, 0) + cnt
                        agg["known"].append({"known": fid})
                    if len(agg["samples"]) < 3:
                        agg["samples"].extend(a["samples"][: 3 - len(agg["samples"])])
                    if a["error"]:
                        agg["errors"].append(a["error"])
                        if len(agg["errors"]) > 40:
                            stop = True
                    if a["raw"]:
                        raw_hits.append((a["raw"], a["start"]))
                        stop = True
                elif now > max(deadline, began) + 600:
                    p.kill()
                    del live[conn]
                    harness_error = f"batch starting at run {start} did not finish 600 s after the deadline"
            if stop:
                for conn, (p, _, _) in list(live.items()):
                    p.kill()
                    p.join()
                    conn.close()
                live.clear()
                break

        # 4. triage of what the batches saw (isolation, minimisation, known-finding match)
        for raw, start in sorted(raw_hits, key=lambda x: x[0]["run_index"])[:4]:
            entry = triage(prop, base_seed, tier, raw, start, known)
            (agg["known"] if "known" in entry else agg["violations"]).append(entry)

        # 5. property-specific second phase (e.g. re-execution in fresh interpreters)
        if hasattr(prop, "post_phase") and not agg["violations"] and not agg["errors"] and not harness_error:  # (a clean first phase only)
            def rng_cases(n):
                return [_gen(prop, base_seed, tier, i) for i in range(n)]

            for case, resd in prop.post_phase(tier, base_seed, rng_cases):
                agg["stats"]["post_phase_cases"] = agg["stats"].get("post_phase_cases", 0) + 1
                for k, v in resd["stats"].items():
                    agg["stats"][k] = agg["stats"].get(k, 0) + v
                for k, v in resd["faults"].items():
                    agg["faults"][k] = agg["faults"].get(k, 0) + v
                if resd["violations"] and not agg["violations"]:
                    entry = triage(prop, base_seed, tier, {"case": case, "run_index": case["run_index"], "result": resd}, case["run_index"], known)
                    (agg["known"] if "known" in entry else agg["violations"]).append(entry)
    except HarnessError as e:
        harness_error = str(e)
    except Exception:
        harness_error = traceback.format_exc()

    exit_code = 0
    for fid in sorted({e["known"] for e in agg["known"]}):
        f = next(x for x in known["findings"] if x["id"] == fid)
        line = f"KNOWN-FINDING: property={prop.ID} {fid}: {f.get('what', '')}"
        if line not in known_lines:
            known_lines.append(line)
    for line in known_lines:
        print(line)
    for entry in agg["violations"][:3]:
        path = write_replay(prop, entry)
        ok, tail = verify_replay_fresh(prop, path)
        v = entry["violation"]
        print(f"[{prop.ID}] violation kind={v['kind']} signature={v.get('signature')} run_index={entry['run_index']} seed={entry['seed']} "
              f"ops {entry['orig_ops']}->{len(entry['case'].get('ops', []))} prefix_cases={len(entry.get('prefix', []))} "
              f"replay_reproduces_in_fresh_process={ok}")
        print(json.dumps(v.get("detail"), default=str)[:1500])
        if not ok:
            print(f"[{prop.ID}] HARNESS-WARNING replay check: {tail}")
        print(f"VIOLATION property={prop.ID} replay={path}")
        replay_paths.append(path)
        exit_code = 1
    if agg["errors"]:
        print(f"HARNESS-ERROR property={prop.ID} {len(agg['errors'])} run(s) crashed the harness; first:")
        print(agg["errors"][0]["trace"][-3000:])
        if exit_code == 0:
            exit_code = 2
    if harness_error:
        print(f"HARNESS-ERROR property={prop.ID} {harness_error[-3000:]}")
        if exit_code == 0:
            exit_code = 2
    return finish(exit_code)


def write_evidence(prop, tier, base_seed, agg, wall, known_lines, replay_paths):
    if os.path.realpath(os.environ.get("LABSIM_REPO", "/repo")) != "/repo":
        return  # a run against a scratch tree (sensitivity tests) is not evidence about /repo
    os.makedirs(EVIDENCE_DIR, exist_ok=True)
    distinct = {k: len(v) for k, v in agg["distinct"].items()}
    nontrivial = distinct.get(prop.NONTRIVIAL_MEASURE, 0)
    cov = {
        "evaluations": agg["runs"],
        "distinct_nontrivial": nontrivial,
        "rule": prop.RULE,
        "samples": agg["samples"][:3] or ["<no run completed>"],
        "runs_per_hour": round(agg["runs"] / wall * 3600) if wall > 0 else 0,
        "seeds": f"run i uses sha256('{prop.ID}:{base_seed}:i')[:8], i in [0,{agg['runs']})",
        "simulated_time": "labrea has no clock or timers; logical time = events in the run logs",
        "logical_events": agg["stats"].get("events", 0),
        "fault_kinds_fired": agg["faults"],
        "distinct_by_measure": distinct,
        "counters": agg["stats"],
        "real_components": prop.REAL,
        "stub_components": prop.STUBS,
        "known_findings_reported": known_lines,
        "replays": replay_paths,
        "engine": prop.ENGINE,
        "isolation": "every batch of runs, minimiser candidate, corpus case and replay executes in a process freshly forked from a parent that never runs a case",
    }
    cov.update(prop.extra_evidence(tier, base_seed))
    doc = {
        "property_id": prop.ID,
        "tier": tier,
        "seed": int(base_seed),
        "level": prop.LEVEL,
        "coverage": cov,
        "assumptions": prop.ASSUMPTIONS,
        "wall_s": round(wall, 2),
        "violations": len(agg["violations"]),
    }
    with open(os.path.join(EVIDENCE_DIR, f"{prop.ID}.json"), "w") as f:
        json.dump(doc, f, indent=1, sort_keys=True, default=str)

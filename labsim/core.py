"""Generic seeded-search driver shared by all properties.

One integer (VERIF_SEED) decides everything: run i of property P uses PRNG seed
sha256(P, VERIF_SEED, i).  Workers are forked processes; each executes whole runs, so the schedule
inside a run never depends on the worker count.  Exit codes of registered commands: 0 = held on
everything explored (known findings are reported, not failed), 1 = VIOLATION, 2 = harness error.
"""
import concurrent.futures as cf
import faulthandler
import hashlib
import json
import multiprocessing as mp
import os
import random
import subprocess
import sys
import time
import traceback

VERIF = os.path.dirname(os.path.dirname(os.path.abspath(__file__)))
KNOWN_FILE = os.path.join(VERIF, "known_findings.json")
REPLAY_DIR = os.path.join(VERIF, "replays")
EVIDENCE_DIR = os.path.join(VERIF, "evidence")


def run_seed(prop_id, base_seed, i):
    h = hashlib.sha256(f"{prop_id}:{base_seed}:{i}".encode()).digest()
    return int.from_bytes(h[:8], "big")


def h64(obj):
    return int.from_bytes(hashlib.sha256(repr(obj).encode()).digest()[:8], "big")


class Violation(dict):
    """{'kind': str, 'detail': {...}, 'signature': str|None}"""


class Result:
    __slots__ = ("violations", "stats", "digest", "distinct", "sample", "faults")

    def __init__(self):
        self.violations = []
        self.stats = {}
        self.digest = ""
        self.distinct = {}  # measure name -> list of 64-bit hashes
        self.sample = None
        self.faults = {}  # fault kind -> times fired

    def bump(self, key, n=1):
        self.stats[key] = self.stats.get(key, 0) + n

    def fault(self, key, n=1):
        self.faults[key] = self.faults.get(key, 0) + n

    def seen(self, measure, obj):
        self.distinct.setdefault(measure, []).append(h64(obj))

    def violate(self, kind, **detail):
        v = Violation(kind=kind, detail=detail, signature=None)
        self.violations.append(v)
        return v


class Property:
    """Base class: a property = generator + deterministic executor with oracles + shrinker."""

    ID = "C00"
    LEVEL = "exploration"
    ENGINE = "history-sim"
    RULE = ""
    ASSUMPTIONS = []
    REAL = ["labrea/* (all modules, unmodified)", "confectioner"]
    STUBS = ["user callables (bodies, callbacks, effects, steps, predicates, factories, bind functions)"]
    QUICK = {"runs": 400, "wall": 40}
    THOROUGH = {"runs": 200000, "wall": 480}
    NONTRIVIAL_MEASURE = "history"

    def gen_case(self, rng, tier):
        raise NotImplementedError

    def run_case(self, case):
        raise NotImplementedError

    def shrink_candidates(self, case):
        return iter(())

    def signature(self, case, violation):
        """Culprit signature of a (minimised) counterexample, used to match known findings."""
        return None

    def known_probes(self):
        """[(finding id, case)] deterministic reproducers of open known findings."""
        return []

    def extra_evidence(self, tier, seed):
        return {}


# --------------------------------------------------------------------------- known findings
def load_known():
    try:
        with open(KNOWN_FILE) as f:
            return json.load(f)
    except FileNotFoundError:
        return {"findings": []}


def match_known(prop_id, violation, known):
    for f in known.get("findings", []):
        if f.get("status") != "open" or f.get("property") != prop_id:
            continue
        m = f.get("match", {})
        if m.get("kind") and m["kind"] != violation["kind"]:
            continue
        if m.get("signature") and m["signature"] != violation.get("signature"):
            continue
        if not m.get("signature"):
            continue  # an entry without a specific signature suppresses nothing
        return f
    return None


# --------------------------------------------------------------------------- minimisation
def same_class(v, kind):
    return v["kind"] == kind


def first_violation(prop, case, kind=None):
    try:
        res = prop.run_case(case)
    except Exception:  # a candidate that breaks the harness is not a counterexample
        return None
    for v in res.violations:
        if kind is None or v["kind"] == kind:
            return v
    return None


def minimise(prop, case, kind, budget_runs=600, budget_s=25.0):
    """Greedy delta-debugging: accept a candidate only if the same violation kind recurs."""
    t0 = time.time()
    runs = 0
    cur = case
    improved = True
    while improved and runs < budget_runs and time.time() - t0 < budget_s:
        improved = False
        for cand in prop.shrink_candidates(cur):
            runs += 1
            if first_violation(prop, cand, kind) is not None:
                cur = cand
                improved = True
                break
            if runs >= budget_runs or time.time() - t0 > budget_s:
                break
    return cur, runs


# --------------------------------------------------------------------------- worker
_PROP = None
_BASE_SEED = 0
_TIER = "quick"
_KNOWN = None


def _worker_batch(args):
    start, count, deadline = args
    faulthandler.dump_traceback_later(600, exit=True)
    prop = _PROP
    agg = {"runs": 0, "stats": {}, "faults": {}, "distinct": {}, "violations": [], "known": [], "samples": [], "errors": []}
    for i in range(start, start + count):
        if time.time() > deadline:
            break
        seed = run_seed(prop.ID, _BASE_SEED, i)
        try:
            case = prop.gen_case(random.Random(seed), _TIER)
            case["seed"] = seed
            case["run_index"] = i
            res = prop.run_case(case)
        except Exception:
            agg["errors"].append({"run_index": i, "seed": seed, "trace": traceback.format_exc()})
            break
        agg["runs"] += 1
        for k, v in res.stats.items():
            agg["stats"][k] = agg["stats"].get(k, 0) + v
        for k, v in res.faults.items():
            agg["faults"][k] = agg["faults"].get(k, 0) + v
        for k, v in res.distinct.items():
            agg["distinct"].setdefault(k, set()).update(v)
        if res.sample is not None and len(agg["samples"]) < 2:
            agg["samples"].append(res.sample)
        if res.violations:
            v0 = res.violations[0]
            small, nruns = minimise(prop, case, v0["kind"])
            v = first_violation(prop, small, v0["kind"]) or v0
            v["signature"] = prop.signature(small, v)
            v["shrink_runs"] = nruns
            entry = {"violation": dict(v), "case": small, "orig_ops": len(case.get("ops", [])), "seed": seed, "run_index": i}
            kf = match_known(prop.ID, v, _KNOWN)
            if kf is not None:
                entry["known"] = kf["id"]
                agg["known"].append(entry)
            else:
                agg["violations"].append(entry)
                break
    faulthandler.cancel_dump_traceback_later()
    agg["distinct"] = {k: list(v) for k, v in agg["distinct"].items()}
    return agg


# --------------------------------------------------------------------------- replay
def write_replay(prop, entry):
    os.makedirs(REPLAY_DIR, exist_ok=True)
    path = os.path.join(REPLAY_DIR, f"{prop.ID}-{entry['seed']}.json")
    res = prop.run_case(entry["case"])
    doc = {
        "property": prop.ID,
        "seed": entry["seed"],
        "run_index": entry.get("run_index"),
        "expected": {"kind": entry["violation"]["kind"], "signature": entry["violation"].get("signature"), "digest": res.digest},
        "violation": entry["violation"],
        "case": entry["case"],
    }
    with open(path, "w") as f:
        json.dump(doc, f, indent=1, sort_keys=True, default=str)
    return path


def replay(prop, path, quiet=False):
    with open(path) as f:
        doc = json.load(f)
    res = prop.run_case(doc["case"])
    want = doc.get("expected", {})
    hit = [v for v in res.violations if v["kind"] == want.get("kind")]
    same_digest = res.digest == want.get("digest")
    if not quiet:
        print(f"replay {path}: violations={[v['kind'] for v in res.violations]} digest={res.digest} same_digest={same_digest}")
        for v in res.violations[:3]:
            print(json.dumps(v, indent=1, default=str)[:3000])
    if hit:
        print(f"VIOLATION property={prop.ID} replay={path}")
        print(f"REPLAY-DIGEST {res.digest} {'same' if same_digest else 'DIFFERENT'}")
        return 1
    print(f"replay did not reproduce a {want.get('kind')} violation")
    return 0


def verify_replay_fresh(prop, path):
    """Re-execute the replay file in a fresh interpreter: it must fail the same way, same digest."""
    env = dict(os.environ)
    env["PYTHONHASHSEED"] = "0"
    try:
        p = subprocess.run(
            [sys.executable, "-m", "labsim.main", prop.ID, "--replay", path, "--quiet"],
            cwd=VERIF, env=env, capture_output=True, text=True, timeout=300,
        )
    except subprocess.TimeoutExpired:
        return False, "timeout"
    ok = p.returncode == 1 and "REPLAY-DIGEST" in p.stdout and " same" in p.stdout
    return ok, (p.stdout + p.stderr)[-500:]


# --------------------------------------------------------------------------- driver
def drive(prop, tier, base_seed, workers=None):
    global _PROP, _BASE_SEED, _TIER, _KNOWN
    t0 = time.time()
    budget = prop.QUICK if tier == "quick" else prop.THOROUGH
    if os.environ.get("VERIF_RUNS"):
        budget = dict(budget, runs=int(os.environ["VERIF_RUNS"]))
    if os.environ.get("VERIF_WALL"):
        budget = dict(budget, wall=float(os.environ["VERIF_WALL"]))
    workers = workers or int(os.environ.get("VERIF_WORKERS", "16"))
    known = load_known()
    _PROP, _BASE_SEED, _TIER, _KNOWN = prop, base_seed, tier, known
    print(f"[{prop.ID}] tier={tier} VERIF_SEED={base_seed} engine={prop.ENGINE} workers={workers} budget={budget}", flush=True)

    known_lines = []
    # 1. deterministic probes of the open known findings (never affect the exit code)
    for fid, case in prop.known_probes():
        f = next((x for x in known.get("findings", []) if x.get("id") == fid and x.get("status") == "open"), None)
        if f is None:
            continue
        v = first_violation(prop, case, f.get("match", {}).get("kind"))
        if v is not None:
            known_lines.append(f"KNOWN-FINDING: property={prop.ID} {fid}: {f.get('what', '')}")
        else:
            print(f"[{prop.ID}] note: open known finding {fid} no longer reproduces on this tree")

    # 2. regression corpus: minimised counterexamples of defects that were repaired ("fixed:" entries)
    #    and hand-written probes; each must hold on the current tree.
    corpus_dir = os.path.join(VERIF, "corpus", prop.ID)
    corpus_violations = []
    n_corpus = 0
    if os.path.isdir(corpus_dir):
        for name in sorted(os.listdir(corpus_dir)):
            if not name.endswith(".json"):
                continue
            path = os.path.join(corpus_dir, name)
            with open(path) as f:
                doc = json.load(f)
            n_corpus += 1
            try:
                cres = prop.run_case(doc["case"])
            except Exception:
                print(f"HARNESS-ERROR property={prop.ID} corpus case {name} crashed:\n{traceback.format_exc()[-2000:]}")
                return 2
            for v in cres.violations:
                v["signature"] = prop.signature(doc["case"], v)
                if match_known(prop.ID, v, known) is None:
                    corpus_violations.append((path, v))
                    break
    if corpus_violations:
        for path, v in corpus_violations:
            print(f"[{prop.ID}] corpus case fails again: kind={v['kind']} {json.dumps(v.get('detail'), default=str)[:800]}")
            print(f"VIOLATION property={prop.ID} replay={path}")
        agg0 = {"runs": n_corpus, "stats": {}, "faults": {}, "distinct": {}, "violations": [1] * len(corpus_violations), "known": [], "samples": [], "errors": []}
        write_evidence(prop, tier, base_seed, agg0, time.time() - t0, known_lines, [p for p, _ in corpus_violations])
        return 1

    deadline = t0 + budget["wall"]
    total = budget["runs"]
    batch = max(1, min(50, total // (workers * 4) or 1))
    agg = {"runs": 0, "stats": {}, "faults": {}, "distinct": {}, "violations": [], "known": [], "samples": [], "errors": []}
    ctx = mp.get_context("fork")
    harness_error = None
    with cf.ProcessPoolExecutor(max_workers=workers, mp_context=ctx) as pool:
        futs = []
        nxt = 0
        pending = set()

        def submit():
            nonlocal nxt
            while len(pending) < workers * 2 and nxt < total and time.time() < deadline:
                c = min(batch, total - nxt)
                pending.add(pool.submit(_worker_batch, (nxt, c, deadline)))
                nxt += c

        submit()
        stop = False
        while pending and not stop:
            done, _ = cf.wait(pending, timeout=5, return_when=cf.FIRST_COMPLETED)
            if not done and time.time() > deadline + 300:
                harness_error = "worker batch did not finish 300 s after the deadline"
                break
            for fut in done:
                pending.discard(fut)
                try:
                    a = fut.result()
                except Exception as e:  # worker died
                    harness_error = f"worker failed: {e!r}"
                    stop = True
                    break
                agg["runs"] += a["runs"]
                for k, v in a["stats"].items():
                    agg["stats"][k] = agg["stats"].get(k, 0) + v
                for k, v in a["faults"].items():
                    agg["faults"][k] = agg["faults"].get(k, 0) + v
                for k, v in a["distinct"].items():
                    agg["distinct"].setdefault(k, set()).update(v)
                agg["known"].extend(a["known"])
                agg["violations"].extend(a["violations"])
                agg["errors"].extend(a["errors"])
                if len(agg["samples"]) < 3:
                    agg["samples"].extend(a["samples"][: 3 - len(agg["samples"])])
                if agg["violations"] or agg["errors"]:
                    stop = True
            if not stop:
                submit()
        for fut in pending:
            fut.cancel()
        if stop or harness_error:
            # do not wait for stragglers
            for p in list(getattr(pool, "_processes", {}).values()):
                try:
                    p.terminate()
                except Exception:
                    pass

    wall = time.time() - t0
    exit_code = 0
    replay_paths = []
    for fid in sorted({e["known"] for e in agg["known"]}):
        f = next(x for x in known["findings"] if x["id"] == fid)
        line = f"KNOWN-FINDING: property={prop.ID} {fid}: {f.get('what', '')}"
        if line not in known_lines:
            known_lines.append(line)
    for line in known_lines:
        print(line)
    for entry in agg["violations"][:3]:
        path = write_replay(prop, entry)
        ok, tail = verify_replay_fresh(prop, path)
        v = entry["violation"]
        print(f"[{prop.ID}] violation kind={v['kind']} signature={v.get('signature')} run_index={entry['run_index']} seed={entry['seed']} "
              f"ops {entry['orig_ops']}->{len(entry['case'].get('ops', []))} replay_reproduces_in_fresh_process={ok}")
        print(json.dumps(v.get("detail"), default=str)[:1500])
        if not ok:
            print(f"[{prop.ID}] HARNESS-WARNING replay check: {tail}")
        print(f"VIOLATION property={prop.ID} replay={path}")
        replay_paths.append(path)
        exit_code = 1
    if agg["errors"]:
        print(f"HARNESS-ERROR property={prop.ID} {len(agg['errors'])} run(s) crashed the harness; first:")
        print(agg["errors"][0]["trace"][-3000:])
        if exit_code == 0:
            exit_code = 2
    if harness_error:
        print(f"HARNESS-ERROR property={prop.ID} {harness_error}")
        if exit_code == 0:
            exit_code = 2
    write_evidence(prop, tier, base_seed, agg, wall, known_lines, replay_paths)
    rate = agg["runs"] / wall if wall > 0 else 0
    print(f"[{prop.ID}] runs={agg['runs']} wall={wall:.1f}s ({rate * 3600:.0f} runs/h) violations={len(agg['violations'])} "
          f"known={len(agg['known'])} exit={exit_code}")
    return exit_code


def write_evidence(prop, tier, base_seed, agg, wall, known_lines, replay_paths):
    os.makedirs(EVIDENCE_DIR, exist_ok=True)
    distinct = {k: len(v) for k, v in agg["distinct"].items()}
    nontrivial = distinct.get(prop.NONTRIVIAL_MEASURE, 0)
    cov = {
        "evaluations": agg["runs"],
        "distinct_nontrivial": nontrivial,
        "rule": prop.RULE,
        "samples": agg["samples"][:3] or ["<no run completed>"],
        "runs_per_hour": round(agg["runs"] / wall * 3600) if wall > 0 else 0,
        "seeds": f"run i uses sha256('{prop.ID}:{base_seed}:i')[:8], i in [0,{agg['runs']})",
        "simulated_time": "labrea has no clock or timers; logical time = events in the run logs",
        "logical_events": agg["stats"].get("events", 0),
        "fault_kinds_fired": agg["faults"],
        "distinct_by_measure": distinct,
        "counters": agg["stats"],
        "real_components": prop.REAL,
        "stub_components": prop.STUBS,
        "known_findings_reported": known_lines,
        "replays": replay_paths,
        "engine": prop.ENGINE,
    }
    cov["corpus_cases_replayed"] = len([n for n in os.listdir(os.path.join(VERIF, "corpus", prop.ID)) if n.endswith(".json")]) if os.path.isdir(os.path.join(VERIF, "corpus", prop.ID)) else 0
    cov.update(prop.extra_evidence(tier, base_seed))
    doc = {
        "property_id": prop.ID,
        "tier": tier,
        "seed": int(base_seed),
        "level": prop.LEVEL,
        "coverage": cov,
        "assumptions": prop.ASSUMPTIONS,
        "wall_s": round(wall, 2),
        "violations": len(agg["violations"]),
    }
    with open(os.path.join(EVIDENCE_DIR, f"{prop.ID}.json"), "w") as f:
        json.dump(doc, f, indent=1, sort_keys=True, default=str)

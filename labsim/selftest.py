"""./check selftest [--props C01,C02] [--n 40]

Determinism self-test: for every property, the digests of runs 0..n-1 (each executed in a freshly forked
process) must be identical (a) when computed twice, (b) in a freshly started interpreter under another
PYTHONHASHSEED, (c) when the cases are executed in reverse order (state leaking between runs).
Exit 0 iff all digests agree."""
import json
import os
import subprocess
import sys

from . import core
from .main import load_prop

ALL = ["C01", "C02", "C03", "C06", "C07", "C08", "C10", "C12", "C14", "C15", "C16", "C17", "C18", "C20"]


def digests(pid, n, seed, reverse=False):
    prop = load_prop(pid)
    idx = list(range(n))
    if reverse:
        idx.reverse()
    out = {}
    for i in idx:
        case = core._gen(prop, seed, "quick", i)
        out[i] = [core.h64(json.dumps(case, sort_keys=False, default=str)), core.run_isolated(prop, case)["digest"]]
    return [out[i] for i in range(n)]


def main(args):
    props = os.environ.get("SELFTEST_PROPS", ",".join(ALL)).split(",")
    n = int(os.environ.get("SELFTEST_N", "30"))
    seed = int(os.environ.get("VERIF_SEED") or 424242)
    if os.environ.get("SELFTEST_CHILD"):
        print(json.dumps({p: digests(p, n, seed) for p in props}))
        return 0
    bad = 0
    for p in props:
        a = digests(p, n, seed)
        b = digests(p, n, seed, reverse=True)
        env = dict(os.environ, PYTHONHASHSEED="31337", SELFTEST_CHILD="1", SELFTEST_PROPS=p, SELFTEST_N=str(n), VERIF_SEED=str(seed))
        out = subprocess.run([sys.executable, "-m", "labsim.main", "selftest"], cwd=core.VERIF, env=env, capture_output=True, text=True, timeout=1800)
        if out.returncode != 0:
            print(f"[selftest] {p}: child interpreter failed: {out.stderr[-1500:]}")
            bad += 1
            continue
        c = json.loads(out.stdout.strip().splitlines()[-1])[p]
        gen_diff = [i for i in range(n) if not (a[i][0] == b[i][0] == c[i][0])]
        run_diff = [i for i in range(n) if not (a[i][1] == b[i][1] == c[i][1])]
        status = "ok" if not gen_diff and not run_diff else "DIFFERENT"
        print(f"[selftest] {p}: {n} seeds x (twice, reversed order, fresh interpreter PYTHONHASHSEED=31337): {status}"
              + (f" generation differs at runs {gen_diff[:5]}" if gen_diff else "") + (f" execution digests differ at runs {run_diff[:5]}" if run_diff else ""))
        if gen_diff or run_diff:
            bad += 1
    print(f"[selftest] determinism: {'PASS' if not bad else 'FAIL'} ({len(props)} properties)")
    return 0 if not bad else 1

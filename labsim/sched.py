"""thread-sim: real threads released one at a time by a seeded scheduler (baton passing).

Exactly one simulated thread runs at any instant.  A running thread reaches *yield points* — every
`line` (optionally every `opcode`) trace event in a frame whose code lives under the labrea package,
every acquire/release of a simulated lock, and the op boundaries the scripts announce — and there the
scheduler decides, from its PRNG or from a recorded schedule, who runs next.  Every lock reachable
from labrea is replaced by a `SimLock`, so no simulated thread is ever parked while holding a real
lock that another one needs.  The choice of who runs is therefore the simulator's alone, and one
schedule (list of context switches) is one exactly repeatable execution.
"""
import os
import sys
import threading

import labrea
import labrea.overload as lov
import labrea.runtime as lrt

LABREA_DIR = os.path.dirname(os.path.abspath(labrea.__file__)) + os.sep
WAIT_TIMEOUT = 30.0


class Deadlock(BaseException):
    pass


class Abort(BaseException):
    """Unwinds a simulated thread when the run is being torn down."""


class HarnessTimeout(BaseException):
    pass


class StepLimit(BaseException):
    pass


class _T:
    __slots__ = ("tid", "thread", "event", "state", "fn", "error", "waiting_for", "prio")

    def __init__(self, tid, fn):
        self.tid = tid
        self.fn = fn
        self.event = threading.Event()
        self.state = "ready"  # ready | blocked | done
        self.error = None
        self.waiting_for = None
        self.thread = None
        self.prio = 0


class Scheduler:
    def __init__(self, rng, strategy, granularity="line", schedule=None, max_steps=250000):
        self.rng = rng
        self.strategy = strategy  # {"kind": "random", "p": .2} | {"kind": "pct", "depth": d, "horizon": n} | {"kind": "sweep", "at": i, "to": j} | {"kind": "replay"}
        self.granularity = granularity
        self.replay = None if schedule is None else {int(s): t for s, t in schedule}
        self.threads = {}
        self.order = []
        self.current = None
        self.steps = 0
        self.switches = []  # recorded schedule: (step, tid chosen)
        self.events = []  # (seq, tid, what) — the global event sequence
        self.seq = 0
        self.aborted = False
        self.violation = None
        self.max_steps = max_steps
        self.yields_in = {}  # function name -> yield points seen (reach probe)
        self._pct_changes = set()
        self._main = threading.current_thread()

    # ------------------------------------------------------------------ bookkeeping
    def me(self):
        t = threading.current_thread()
        for st in self.threads.values():
            if st.thread is t:
                return st
        return None

    def stamp(self, what):
        self.seq += 1
        st = self.me()
        self.events.append((self.seq, st.tid if st else "main", what))
        return self.seq

    def runnable(self):
        return [self.threads[t] for t in self.order if self.threads[t].state == "ready"]

    # ------------------------------------------------------------------ choosing
    def _choose(self, cur, candidates, forced, what="line"):
        """Pick the next thread among `candidates` (all ready). `cur` may be None (blocked / finished)."""
        step = self.steps
        if self.replay is not None:
            want = self.replay.get(step)
            if want is not None:
                for c in candidates:
                    if c.tid == want:
                        return c
            if cur is not None and cur in candidates:
                return cur
            return candidates[0]
        k = self.strategy["kind"]
        if k == "race":
            # race-directed: pre-empt mostly around accesses to shared mutable fields (right before a write, sometimes
            # right before a read), rarely elsewhere
            p = self.strategy["p_set"] if what.startswith(("set:", "setitem:", "pop:", "setdefault:")) else self.strategy["p_get"] if what.startswith(("get:", "getitem:", "contains:")) else self.strategy["p_line"]
            if cur is not None and cur in candidates and self.rng.random() >= p:
                return cur
            others = [c for c in candidates if c is not cur] or candidates
            return self.rng.choice(others)
        if k == "random":
            if cur is not None and cur in candidates and self.rng.random() >= self.strategy["p"]:
                return cur
            others = [c for c in candidates if c is not cur] or candidates
            return self.rng.choice(others)
        if k == "pct":
            if step in self._pct_changes and cur is not None:
                cur.prio = min(t.prio for t in self.threads.values()) - 1
            return max(candidates, key=lambda c: c.prio)
        if k == "sweep":
            if step == self.strategy["at"]:
                for c in candidates:
                    if c.tid == self.strategy["to"]:
                        return c
            if cur is not None and cur in candidates:
                return cur
            first = self.strategy.get("first")
            if first is not None and not getattr(self, "_first_done", False):
                # which thread gets the solo prefix (the one that is then pre-empted at `at`)
                self._first_done = True
                for c in candidates:
                    if c.tid == first:
                        return c
            return candidates[0]
        raise ValueError(k)

    # ------------------------------------------------------------------ the yield point
    def yield_point(self, what="line"):
        cur = self.me()
        if cur is None or self.current is not cur:
            return  # not a simulated thread (program construction on the main thread)
        if self.aborted:
            raise Abort()
        self.steps += 1
        if self.steps > self.max_steps:
            self._fail(StepLimit(f"more than {self.max_steps} yield points"))
        nxt = self._choose(cur, self.runnable(), False, what)
        if nxt is not cur:
            self._switch(cur, nxt)

    def _switch(self, cur, nxt):
        self.switches.append((self.steps, nxt.tid))
        self.current = nxt
        if cur is not None:
            cur.event.clear()
        nxt.event.set()
        if cur is not None:
            self._wait(cur)

    def _wait(self, st):
        if not st.event.wait(WAIT_TIMEOUT):
            self.aborted = True
            raise HarnessTimeout(f"{st.tid} was not rescheduled within {WAIT_TIMEOUT}s")
        if self.aborted:
            raise Abort()

    def _fail(self, exc):
        self.aborted = True
        if self.violation is None:
            self.violation = exc
        for st in self.threads.values():
            st.event.set()
        raise exc

    # ------------------------------------------------------------------ blocking (simulated locks)
    def block_on(self, lock):
        cur = self.me()
        cur.state = "blocked"
        cur.waiting_for = lock
        cands = self.runnable()
        if not cands:
            cur.state = "ready"
            self._fail(Deadlock(f"{cur.tid} waits for {lock.name} held by {lock.owner}; no thread is runnable"))
        self.steps += 1
        nxt = self._choose(None, cands, True)
        self._switch(cur, nxt)

    def wake(self, lock):
        for st in self.threads.values():
            if st.state == "blocked" and st.waiting_for is lock:
                st.state = "ready"
                st.waiting_for = None

    # ------------------------------------------------------------------ tracing
    def _global_trace(self, frame, event, arg):
        # (`__subclasses__` of the dataset-class metaclass is called by abc's instance-check machinery only on
        #  an ABC cache miss — process-global cache state that must not leak into the schedule; it returns [])
        if event == "call" and frame.f_code.co_filename.startswith(LABREA_DIR) and frame.f_code.co_name != "__subclasses__":
            return self._local_trace
        return None

    def _local_trace(self, frame, event, arg):
        if event == "line":
            name = frame.f_code.co_name
            self.yields_in[name] = self.yields_in.get(name, 0) + 1
            self.yield_point(event)
        return self._local_trace

    # ------------------------------------------------------------------ threads
    def spawn(self, tid, fn):
        st = _T(tid, fn)
        self.threads[tid] = st
        self.order.append(tid)
        st.thread = threading.Thread(target=self._body, args=(st,), name=tid, daemon=True)
        return st

    def _body(self, st):
        try:
            self._wait(st)
            sys.settrace(self._global_trace)
            try:
                st.fn()
            finally:
                sys.settrace(None)
        except Abort:
            pass
        except (Deadlock, StepLimit, HarnessTimeout) as e:
            if self.violation is None:
                self.violation = e
        except BaseException as e:  # noqa: BLE001 — a script error is data for the oracle
            st.error = e
        finally:
            st.state = "done"
            self._handoff()

    def _handoff(self):
        if self.aborted:
            for t in self.threads.values():
                t.event.set()
            self._done.set()
            return
        cands = self.runnable()
        if cands:
            self.steps += 1
            nxt = self._choose(None, cands, True)
            self.switches.append((self.steps, nxt.tid))
            self.current = nxt
            nxt.event.set()
            return
        blocked = [t for t in self.threads.values() if t.state == "blocked"]
        if blocked and self.violation is None:
            self.violation = Deadlock("threads finished while " + ", ".join(f"{t.tid} waits for {t.waiting_for.name}" for t in blocked))
            self.aborted = True
            for t in blocked:
                t.event.set()
        self._done.set()

    def run(self):
        """Start all spawned threads and run them to completion under this scheduler."""
        self._done = threading.Event()
        if self.strategy.get("kind") == "pct":
            prios = list(range(len(self.order)))
            self.rng.shuffle(prios)
            for tid, p in zip(self.order, prios):
                self.threads[tid].prio = p
            horizon = self.strategy.get("horizon", 400)
            self._pct_changes = {self.rng.randrange(1, horizon) for _ in range(self.strategy.get("depth", 1))}
        for tid in self.order:
            self.threads[tid].thread.start()
        first = self._choose(None, self.runnable(), True)
        self.switches.append((0, first.tid))
        self.current = first
        first.event.set()
        if not self._done.wait(WAIT_TIMEOUT * 2):
            self.aborted = True
            for t in self.threads.values():
                t.event.set()
            raise HarnessTimeout("simulated threads did not finish")
        for tid in self.order:
            self.threads[tid].thread.join(5)
        if isinstance(self.violation, HarnessTimeout):
            raise self.violation


class SimLock:
    """Drop-in for threading.Lock whose acquire/release are scheduling points."""

    def __init__(self, sched, name="lock"):
        self.sched = sched
        self.name = name
        self.owner = None

    def acquire(self, blocking=True, timeout=-1):
        s = self.sched
        me = s.me()
        if me is None or s.current is not me:
            if self.owner is not None:
                raise RuntimeError(f"SimLock {self.name} contended outside the simulation")
            self.owner = "main"
            return True
        s.yield_point("acquire:" + self.name)
        while self.owner is not None:
            if not blocking:
                return False
            s.block_on(self)
        self.owner = me.tid
        s.stamp(("lock", self.name))
        return True

    def release(self):
        s = self.sched
        self.owner = None
        s.wake(self)
        me = s.me()
        if me is not None and s.current is me:
            s.yield_point("release:" + self.name)

    def locked(self):
        return self.owner is not None

    def __enter__(self):
        self.acquire()
        return self

    def __exit__(self, *a):
        self.release()


class _ThreadingProxy:
    """Stands in for the name `threading` inside labrea modules: Lock/RLock create SimLocks."""

    def __init__(self, sched):
        self._sched = sched
        self._n = 0

    def Lock(self):
        self._n += 1
        return SimLock(self._sched, f"lock#{self._n}")

    RLock = Lock

    def __getattr__(self, name):
        return getattr(threading, name)


class YieldAttr:
    """Data descriptor put on a labrea class for the duration of a run: every read / write of the
    instance attribute is a yield point (pre-emption between the load and the store of one statement).

    CPython 3.12.1's per-opcode tracing (frame.f_trace_opcodes) is not usable here: under thread
    switching inside the trace callback it crashes the interpreter and its event count depends on the
    specialising interpreter's warm-up, so sub-line pre-emption is provided where races live instead —
    at accesses to the shared mutable fields."""

    def __init__(self, sched, cls, name, wrap_dict=False):
        self.sched, self.cls, self.name, self.wrap_dict = sched, cls, name, wrap_dict
        self.had = name in vars(cls)
        self.old = vars(cls).get(name)

    def __get__(self, obj, cls=None):
        if obj is None:
            return self
        self.sched.yield_point("get:" + self.name)
        try:
            return obj.__dict__[self.name]
        except KeyError:
            if self.had:
                return self.old
            raise AttributeError(self.name) from None

    def __set__(self, obj, value):
        self.sched.yield_point("set:" + self.name)
        if self.wrap_dict and type(value) is dict:
            value = YDict(self.sched, self.name, value)
        obj.__dict__[self.name] = value

    def __delete__(self, obj):
        del obj.__dict__[self.name]


class YDict(dict):
    """A dict whose individual operations are yield points (the operations themselves stay atomic)."""

    def __init__(self, sched, name, *a):
        super().__init__(*a)
        self._sched, self._name = sched, name

    def _y(self, what):
        self._sched.yield_point(what + ":" + self._name)

    def __getitem__(self, k):
        self._y("getitem")
        return super().__getitem__(k)

    def __setitem__(self, k, v):
        self._y("setitem")
        return super().__setitem__(k, v)

    def __delitem__(self, k):
        self._y("delitem")
        return super().__delitem__(k)

    def __contains__(self, k):
        self._y("contains")
        return super().__contains__(k)

    def get(self, k, d=None):
        self._y("get")
        return super().get(k, d)

    def setdefault(self, k, d=None):
        self._y("setdefault")
        return super().setdefault(k, d)

    def pop(self, *a):
        self._y("pop")
        return super().pop(*a)


def _yielding_class(sched, cls):
    """Every read and write of ANY instance attribute of `cls` objects becomes a yield point (also attributes a change to
    labrea adds later: memo fields, scratch fields).  Returns an undo function."""
    had_get = "__getattribute__" in vars(cls)
    had_set = "__setattr__" in vars(cls)
    old_get = vars(cls).get("__getattribute__")
    old_set = vars(cls).get("__setattr__")
    base_get = cls.__getattribute__
    base_set = cls.__setattr__

    def __getattribute__(self, name):
        if name[:2] != "__":
            d = object.__getattribute__(self, "__dict__")
            if name in d:
                sched.yield_point("get:" + name)
        return base_get(self, name)

    def __setattr__(self, name, value):
        sched.yield_point("set:" + name)
        if name == "_cache" and type(value) is dict:
            value = YDict(sched, name, value)
        base_set(self, name, value)

    cls.__getattribute__ = __getattribute__
    cls.__setattr__ = __setattr__

    def undo():
        if had_get:
            cls.__getattribute__ = old_get
        else:
            del cls.__getattribute__
        if had_set:
            cls.__setattr__ = old_set
        else:
            del cls.__setattr__

    return undo


SHARED_ATTRS = [
    ("labrea.overload", "Overloaded", ["lookup", "dispatch", "default"]),
    ("labrea.runtime", "Runtime", ["handlers", "previous"]),
    ("labrea.dataset", "Dataset", ["overloads", "cache", "effects", "options", "default_options", "callback", "_effects_disabled"]),
    ("labrea.cache", "MemoryCache", ["_cache"]),
]
SHARED_DICTS = [("labrea.runtime", ["_RUNTIMES", "_ENTERED", "_DEFAULT_HANDLERS"]), ("labrea.overload", ["_LOCKS"])]


class installed:
    """Context manager: every lock reachable from labrea becomes a SimLock of this scheduler."""

    def __init__(self, sched):
        self.sched = sched

    def __enter__(self):
        s = self.sched
        self.saved = []
        proxy = _ThreadingProxy(s)
        for mod in list(sys.modules.values()):
            name = getattr(mod, "__name__", "")
            if not (name == "labrea" or name.startswith("labrea.")):
                continue
            d = vars(mod)
            for k, v in list(d.items()):
                if v is threading:
                    self.saved.append((d, k, v))
                    d[k] = proxy
                elif isinstance(v, type(threading.Lock())) or isinstance(v, type(threading.RLock())):
                    self.saved.append((d, k, v))
                    d[k] = SimLock(s, f"{name}.{k}")
        # (labrea's private lock table, if this tree has one: emptied so that every lock is created under the scheduler)
        self.lock_table = getattr(lov, "_LOCKS", None)
        self.locks = dict(self.lock_table) if self.lock_table is not None else {}
        if self.lock_table is not None:
            self.lock_table.clear()
        self.descr = []
        self.undo = []
        self.dicts = []
        if s.granularity == "shared":
            for modname, clsname, names in SHARED_ATTRS:
                cls = getattr(sys.modules[modname], clsname)
                self.undo.append(_yielding_class(s, cls))
            for modname, names in SHARED_DICTS:
                mod = sys.modules[modname]
                for n in names:
                    if hasattr(mod, n):
                        orig = getattr(mod, n)
                        self.dicts.append((mod, n, orig))
                        setattr(mod, n, YDict(s, n, orig))
        return s

    def __exit__(self, *a):
        for u in self.undo:
            u()
        for d in self.descr:
            if d.had:
                setattr(d.cls, d.name, d.old)
            else:
                delattr(d.cls, d.name)
        for mod, n, orig in self.dicts:
            setattr(mod, n, orig)
        for d, k, v in self.saved:
            d[k] = v
        if self.lock_table is not None:
            self.lock_table.clear()
            self.lock_table.update(self.locks)

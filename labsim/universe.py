"""Key / value universe, dictionary generation and mutation, and an *independent*
implementation of dotted lookup, overlay and key enumeration (never calls confectioner).

Everything here is a pure function of its arguments and of the `random.Random` handed in.
"""
import copy
import json

SCALAR_KEYS = ["A", "B", "C"]
SECTION_KEYS = ["S.X", "S.Y", "S.Z", "S.T.U"]
LIST_KEYS = ["L.0", "L.1"]
ROW_KEYS = ["R.0.N", "R.1.N", "R.2.N"]  # through a LIST of sections (rows): three segments, the middle one an index
DISPATCH_KEYS = ["M", "M2"]
NEVER_KEYS = ["N1", "N2", "name", "args", "msg"]  # never mentioned by any generated program (three are named like LogRecord attributes)
WHOLE_KEYS = ["S", "L", "S.T"]  # prefixes of other keys (read as a whole section / list)

SCALARS = [0, 1, 2, True, False, None, "", "a", "b"]
WIDE_VALUES = [1.0, 1.5, -0.0, 2 ** 70, -1, "é¿ü", "w" * 300, "S.X", "A", [[1], []], [0, [1, [2]]],
               "caf\udce9.csv"]  # (a lone surrogate: what os.fsdecode gives for a file name that is not UTF-8)
DISPATCH_VALUES = ["a", "b", "c", 1, 2, None]  # hashable; no two equal in Python
# (escaped braces appear in Template node texts only: a dictionary value "\\{lit\\}" resolves to "{lit}", which a
#  template that stringifies it would re-interpret as a reference — a C09 matter, not claimed here)
TEMPLATES = ["{A}", "{B}", "p{S.X}q", "{S.Y}", "x{C}", "{M}", "{B}{C}", "{L}"]  # "{L}": a whole list, whose elements may be templates again


PRESET_TEMPLATE_TARGETS = ["B", "C"]  # keys pre-set templates may refer to; they never hold templated values themselves
PRESET_TEMPLATES = ["{B}", "{C}", "x{C}", "{B}{C}"]


def canon(v):
    """Canonical JSON text of a JSON value (distinguishes True from 1)."""
    return json.dumps(v, sort_keys=True, separators=(",", ":"))


def crepr_json(v):
    """JSON text that keeps nested AND top-level key order (order-sensitive comparison)."""
    return json.dumps(v, separators=(",", ":"))


def lookup(dotted, o):
    """Independent dotted lookup. Returns (True, value) or (False, None)."""
    cur = o
    for seg in dotted.split("."):
        if isinstance(cur, dict):
            if _is_int(seg) or seg not in cur:
                return False, None
            cur = cur[seg]
        elif isinstance(cur, list):
            if not _is_int(seg):
                return False, None
            i = int(seg)
            if i >= len(cur) or i < -len(cur):
                return False, None
            cur = cur[i]
        else:
            return False, None
    return True, cur


def _is_int(s):
    try:
        int(s)
        return True
    except ValueError:
        return False


def present(dotted, o):
    return lookup(dotted, o)[0]


def overlay(base, top):
    """Independent overlay: `top` wins, nested dicts merged key by key, lists replaced."""
    if not isinstance(base, dict) or not isinstance(top, dict):
        return copy.deepcopy(top)
    out = {k: copy.deepcopy(v) for k, v in base.items()}
    for k, v in top.items():
        if isinstance(v, dict):
            out[k] = overlay(out.get(k, {}) if isinstance(out.get(k), dict) else {}, v)
        else:
            out[k] = copy.deepcopy(v)
    return out


def leaf_paths(o, prefix=""):
    """All dotted paths to leaves (non-dict values; lists are leaves)."""
    out = []
    for k, v in o.items():
        p = f"{prefix}{k}"
        if isinstance(v, dict) and v:
            out.extend(leaf_paths(v, p + "."))
        else:
            out.append(p)
    return out


def all_paths(o, prefix=""):
    """All dotted paths (inner sections, leaves and list elements)."""
    out = []
    if isinstance(o, dict):
        for k, v in o.items():
            p = f"{prefix}{k}"
            out.append(p)
            out.extend(all_paths(v, p + "."))
    elif isinstance(o, list):
        for i, v in enumerate(o):
            p = f"{prefix}{i}"
            out.append(p)
            out.extend(all_paths(v, p + "."))
    return out


def set_path(o, dotted, value):
    """Set a dotted path in a nested dict in place (creating sections; lists by index if present)."""
    segs = dotted.split(".")
    cur = o
    for i, seg in enumerate(segs[:-1]):
        if isinstance(cur, list):
            cur = cur[int(seg)]
            continue
        nxt = cur.get(seg)
        if not isinstance(nxt, (dict, list)):
            nxt = {}
            cur[seg] = nxt
        cur = nxt
    last = segs[-1]
    if isinstance(cur, list):
        idx = int(last)
        while len(cur) <= idx:
            cur.append(None)
        cur[idx] = value
    else:
        cur[last] = value


def del_path(o, dotted):
    segs = dotted.split(".")
    cur = o
    for seg in segs[:-1]:
        if isinstance(cur, dict) and seg in cur:
            cur = cur[seg]
        elif isinstance(cur, list) and _is_int(seg) and int(seg) < len(cur):
            cur = cur[int(seg)]
        else:
            return False
    last = segs[-1]
    if isinstance(cur, dict) and last in cur:
        del cur[last]
        return True
    if isinstance(cur, list) and _is_int(last) and int(last) < len(cur):
        del cur[int(last)]
        return True
    return False


def restrict(o, dotted_keys, prefix=""):
    """Dictionary holding exactly the given dotted paths of `o` (those present), in `o`'s own order.

    A reported path keeps the whole value beneath it; a path that runs through a list keeps the whole
    list (a list cannot be rebuilt sparsely)."""
    keys = set(dotted_keys)
    out = {}
    for k, v in o.items():
        path = f"{prefix}{k}"
        if path in keys:
            out[k] = copy.deepcopy(v)
        elif any(q.startswith(path + ".") for q in keys):
            if isinstance(v, dict):
                sub = restrict(v, keys, path + ".")
                out[k] = sub
            elif isinstance(v, list):
                out[k] = copy.deepcopy(v)
    return out


def template_refs(s):
    """Keys referenced by a templated string (independent of confectioner's regex: same grammar)."""
    out = []
    i = 0
    n = len(s)
    while i < n:
        c = s[i]
        if c == "\\" and i + 1 < n:
            i += 2
            continue
        if c == "{":
            j = i + 1
            ok = True
            while j < n and s[j] != "}":
                if s[j] == "\\":
                    ok = False
                j += 1
            if j < n and ok:
                out.append(s[i + 1 : j])
                i = j + 1
                continue
            # contains a backslash before the closing brace: the library's regex does not match here
            i += 1
            continue
        i += 1
    return out


def template_closed(o, root=None, depth=0):
    """True iff every template reference inside `o` resolves (transitively, acyclic) within root."""
    root = o if root is None else root
    if depth > 6:
        return False
    if isinstance(o, dict):
        return all(template_closed(v, root, depth) for v in o.values())
    if isinstance(o, list):
        return all(template_closed(v, root, depth) for v in o)
    if isinstance(o, str):
        for ref in template_refs(o):
            ok, v = lookup(ref, root)
            if not ok or not template_closed(v, root, depth + 1):
                return False
    return True


def has_template_cycle(o):
    """True iff following template references from some string value revisits a key."""

    def visit(val, stack):
        if isinstance(val, dict):
            return any(visit(v, stack) for v in val.values())
        if isinstance(val, list):
            return any(visit(v, stack) for v in val)
        if isinstance(val, str):
            for ref in template_refs(val):
                if ref in stack or len(stack) > 8:
                    return True
                ok, v = lookup(ref, o)
                if ok and visit(v, stack + [ref]):
                    return True
        return False

    return visit(o, [])


def has_templates(o):
    if isinstance(o, dict):
        return any(has_templates(v) for v in o.values())
    if isinstance(o, list):
        return any(has_templates(v) for v in o)
    return isinstance(o, str) and bool(template_refs(o))


class DictGen:
    """Seeded generator / mutator of option dictionaries.

    cfg switches (swarm): 'tmpl' (templated scalar values), 'tmpl_in_container' (templated strings
    inside lists / whole sections), 'dangling' (templates that may reference absent keys),
    'lists', 'nested', 'never_keys', 'falsy'.
    """

    def __init__(self, rng, cfg, keys=None, no_list_keys=()):
        self.rng = rng
        self.cfg = cfg
        self.keys = list(keys) if keys else SCALAR_KEYS + SECTION_KEYS + DISPATCH_KEYS
        # keys whose value reaches a dispatch / bind source: they must not resolve (through a '{L}' reference) to a list
        self.no_list_keys = set(no_list_keys)

    def scalar(self, for_key=None):
        r = self.rng
        if for_key in DISPATCH_KEYS and r.random() < 0.8:
            return r.choice(DISPATCH_VALUES)
        if self.cfg.get("tmpl") and r.random() < 0.2:
            return r.choice(TEMPLATES)
        if self.cfg.get("wide_values") and r.random() < 0.15:
            # values a tiny universe never shows: floats next to equal ints, signed zero, a big int, non-ASCII and long strings,
            # a string that looks like a dotted key, nested lists
            v = r.choice(WIDE_VALUES)
            if isinstance(v, list) and (for_key not in SCALAR_KEYS or for_key in self.no_list_keys):
                v = 1.5  # (containers only where the generator's own path arithmetic expects a leaf)
            return copy.deepcopy(v)
        return r.choice(SCALARS)

    def value_for(self, key):
        r = self.rng
        if key == "L" or key.startswith("L."):
            return self.scalar()
        return self.scalar(key)

    def fresh(self):
        r = self.rng
        o = {}
        n = r.randint(0, min(6, len(self.keys)))
        for k in r.sample(self.keys, n):
            set_path(o, k, self.value_for(k))
        if self.cfg.get("lists") and r.random() < 0.4:
            o["L"] = [self.list_elem() for _ in range(r.randint(0, 3))]
        self._fix(o)
        return o

    def list_elem(self):
        r = self.rng
        if self.cfg.get("tmpl_in_container") and r.random() < 0.3:
            return r.choice(TEMPLATES)
        return r.choice([0, 1, 2, "a", "b", None, True, False])

    def _fix(self, o):
        """Repair generator restrictions: acyclic templates; closed unless 'dangling'."""
        guard = 0
        while has_template_cycle(o) and guard < 20:
            guard += 1
            self._strip_one_template(o)
        if not self.cfg.get("dangling"):
            guard = 0
            while not template_closed(o) and guard < 20:
                guard += 1
                self._close_or_strip(o)
        if self.cfg.get("tmpl_preset"):
            for k in PRESET_TEMPLATE_TARGETS:
                ok, v = lookup(k, o)
                if ok and has_templates(v):  # at any depth (a section put there by a shape change may hold one)
                    set_path(o, k, self.rng.choice(["a", "b", 1]))
        if not self.cfg.get("shape_change"):
            # no non-container value at a key the programs read through (open finding KF-scalar-at-section-prefix)
            for pfx, empty in (("S", {}), ("S.T", {}), ("L", [])):
                ok, v = lookup(pfx, o)
                if ok and not isinstance(v, (dict, list)):
                    set_path(o, pfx, copy.deepcopy(empty))
            if isinstance(o.get("R"), list):
                # (rows stay sections: a scalar row is a non-container value at a prefix of 'R.<i>.N')
                o["R"] = [x if isinstance(x, dict) else {"N": x if isinstance(x, (int, str)) else 0} for x in o["R"]]
        if isinstance(o.get("LABREA"), dict) and self.cfg.get("labrea_keys"):
            # (the reserved section keeps its shape: other mutations do not scribble into it)
            o["LABREA"] = {k: {"DISABLED": bool(v.get("DISABLED"))} for k, v in o["LABREA"].items() if isinstance(v, dict) and isinstance(v.get("DISABLED"), bool)}
            if not o["LABREA"]:
                del o["LABREA"]
        elif "LABREA" in o and self.cfg.get("labrea_keys"):
            del o["LABREA"]
        for k in sorted(self.no_list_keys):
            # (hashable dispatch values: a whole-reference chain '{B}' -> '{L}' -> [...] hands the reader a list)
            cur, hops = k, 0
            while hops < 6:
                ok, v = lookup(cur, o)
                if ok and isinstance(v, (list, dict)) and hops > 0:
                    set_path(o, k, self.rng.choice(["a", "b", 1]))
                    break
                if not (ok and isinstance(v, str) and v.startswith("{") and v.endswith("}") and template_refs(v) == [v[1:-1]]):
                    break
                cur, hops = v[1:-1], hops + 1
        if not self.cfg.get("tmpl_in_container"):
            # no templated strings inside lists
            for k, v in list(o.items()):
                if isinstance(v, list):
                    o[k] = [("t" if isinstance(x, str) and template_refs(x) else x) for x in v]

    def _template_paths(self, o):
        return [p for p in all_paths(o) if isinstance(lookup(p, o)[1], str) and template_refs(lookup(p, o)[1])]

    def _strip_one_template(self, o):
        ps = self._template_paths(o)
        if ps:
            set_path(o, self.rng.choice(ps), self.rng.choice(["a", "b", 1]))

    def _close_or_strip(self, o):
        for p in self._template_paths(o):
            s = lookup(p, o)[1]
            for ref in template_refs(s):
                if not present(ref, o):
                    if self.rng.random() < 0.6 and not ref.startswith("L"):
                        set_path(o, ref, self.rng.choice(["a", "b", 1, 2]))
                    else:
                        set_path(o, p, self.rng.choice(["a", "b", 1]))
                    return
                ok, v = lookup(ref, o)
                if isinstance(v, str) and template_refs(v) and not template_closed(v, o):
                    continue
        # nested failure: strip something
        self._strip_one_template(o)

    DOM_FULL = [0, 1, 2, True, False, None, "", "a", "b"]  # the only value the key DOM ever holds

    MUTATIONS = [
        "repeat", "repeat", "change", "change", "change", "delete", "add", "never", "permute",
        "sibling", "template", "fresh", "section_replace", "listref", "labrea_switch", "nsp", "nsp", "rows", "rows", "deepkey", "deepkey",
    ]

    def mutate(self, prev, hint_read=None, hint_unread=None):
        """Return (new dictionary, mutation name). `prev` is not modified."""
        r = self.rng
        o = copy.deepcopy(prev)
        m = r.choice(self.MUTATIONS)
        leaves = leaf_paths(o)
        if m == "repeat":
            pass
        elif m == "change" and leaves:
            pool = leaves
            if hint_read and r.random() < 0.6:
                pool = [p for p in leaves if p in hint_read] or leaves
            p = r.choice(pool)
            old = lookup(p, o)[1]
            for _ in range(5):
                new = self.value_for(p) if not isinstance(old, list) else [self.list_elem() for _ in range(r.randint(0, 3))]
                if canon(new) != canon(old):
                    break
            set_path(o, p, new)
        elif m == "delete" and leaves:
            del_path(o, r.choice(leaves))
        elif m == "add" and r.random() < 0.15:
            if "DOM" in o:
                del o["DOM"]
            else:
                o["DOM"] = list(self.DOM_FULL)
        elif m == "add":
            cand = [k for k in self.keys if not present(k, o)]
            if cand:
                k = r.choice(cand)
                try:
                    set_path(o, k, self.value_for(k))
                except (TypeError, AttributeError, IndexError):
                    pass
        elif m == "never" and self.cfg.get("never_keys", True):
            k = r.choice(NEVER_KEYS)
            if r.random() < 0.5:
                o[k] = r.choice(SCALARS)
            else:
                o[k] = {"Q": r.choice(SCALARS)}
        elif m == "permute":
            items = list(o.items())
            r.shuffle(items)
            o = dict(items)
            if r.random() < 0.5:
                # ... and the entries INSIDE a section (insertion order is part of what evaluation can observe)
                secs = [k for k, v in o.items() if isinstance(v, dict) and len(v) > 1 and k != "LABREA"]
                if secs:
                    k = r.choice(secs)
                    inner = list(o[k].items())
                    r.shuffle(inner)
                    o[k] = dict(inner)
        elif m == "sibling":
            secs = [k for k, v in o.items() if isinstance(v, dict) and k not in NEVER_KEYS and k != "LABREA"]
            if secs:
                s = r.choice(secs)
                sub = r.choice(["X", "Y", "Z"])
                if sub in o[s] and r.random() < 0.3:
                    del o[s][sub]
                else:
                    o[s][sub] = self.scalar()
            else:
                o["S"] = {r.choice(["X", "Y", "Z"]): self.scalar()}
        elif m == "template" and self.cfg.get("tmpl") and leaves:
            p = r.choice(leaves)
            if not isinstance(lookup(p, o)[1], list):
                set_path(o, p, r.choice(TEMPLATES))
        elif m == "section_replace" and self.cfg.get("shape_change"):
            # (only the section key changes shape: a dictionary under a scalar key that templates stringify would
            #  re-enter the resolver through its braces — the C09 matter of DESIGN 9.3)
            k = "S"
            if isinstance(o.get(k), dict):
                o[k] = r.choice(SCALARS)
            else:
                o[k] = {r.choice(["X", "Y"]): self.scalar()}
        elif m == "listref" and self.cfg.get("tmpl") and self.cfg.get("tmpl_in_container") and self.cfg.get("lists"):
            # a scalar key whose value refers to a whole LIST that holds templated elements (a reference chain through
            # a container: key -> '{L}' -> ['x{C}', ...] -> C)
            k = r.choice([x for x in SCALAR_KEYS if not (self.cfg.get("tmpl_preset") and x in PRESET_TEMPLATE_TARGETS)] or ["A"])
            o[k] = "{L}"
            o["L"] = [r.choice(["x{C}", "{B}", "{M}", "p{S.X}q"]), r.choice([0, "a"])]
        elif m == "deepkey" and self.cfg.get("deep_default_section"):
            x = r.random()
            if x < 0.5:
                o["K9"] = {"W": {"Z": r.choice(SCALARS)}}
            elif x < 0.7:
                o["K9"] = {"W": r.choice(SCALARS)}
            elif x < 0.85:
                o["K9"] = {"W": {"Z": {"x": r.choice(SCALARS)}}}
            else:
                o.pop("K9", None)
        elif m == "rows" and self.cfg.get("row_keys"):
            # a list of sections (0-3 rows); one row changed / dropped / appended
            rows = copy.deepcopy(o.get("R")) if isinstance(o.get("R"), list) else []
            x = r.random()
            if x < 0.4 or not rows:
                rows.append({"N": r.choice([0, 1, "a", "b"])})
                rows = rows[:3]
            elif x < 0.7:
                rows[r.randrange(len(rows))] = {"N": r.choice([0, 1, 2, "a", "b"])}
            else:
                rows.pop()
            o["R"] = rows
        elif m == "nsp" and self.cfg.get("namespace_keys"):
            # the section of the program's option namespace: declared members, a sub-section, and an entry nobody declared
            sec = dict(o.get("NSP") or {}) if isinstance(o.get("NSP"), dict) else {}
            which = r.choice(["P", "REQ", "AU", "DD", "EXTRA", "SUB", "_HID", "_HID", "drop"])
            if which == "drop":
                o.pop("NSP", None)
            else:
                if which == "SUB":
                    sec["SUB"] = {"X": r.choice([0, 1, "x"])}
                elif r.random() < 0.25 and which in sec:
                    del sec[which]
                else:
                    sec[which] = r.choice([1, 2, "a", "b"])
                o["NSP"] = sec
        elif m == "labrea_switch" and self.cfg.get("labrea_keys"):
            # the reserved section itself is part of the dictionary (here: switches that do not touch caching)
            lab = dict(o.get("LABREA") or {}) if isinstance(o.get("LABREA"), dict) else {}
            which = r.choice(["LOGGING", "EFFECTS"])
            if r.random() < 0.25 and lab:
                o.pop("LABREA", None)
            else:
                lab[which] = {"DISABLED": r.choice([True, False])}
                o["LABREA"] = lab
        elif m == "fresh":
            o = self.fresh()
            if r.random() < 0.3:
                o["DOM"] = list(self.DOM_FULL)
        else:
            m = "repeat"
        self._fix(o)
        return o, m

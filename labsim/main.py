"""CLI: check <ID>|selftest [--tier quick|thorough] [--replay file] [--quiet]"""
import argparse
import importlib
import os
import sys


def load_prop(pid):
    mod = importlib.import_module(f"labsim.props.{pid.lower()}")
    return getattr(mod, pid.upper())()


def main(argv=None):
    ap = argparse.ArgumentParser(prog="check")
    ap.add_argument("prop")
    ap.add_argument("--tier", default=os.environ.get("VERIF_TIER") or "quick", choices=["quick", "thorough"])
    ap.add_argument("--replay")
    ap.add_argument("--quiet", action="store_true")
    ap.add_argument("--seed", type=int, default=None)
    args = ap.parse_args(argv)

    import labrea

    root = os.path.realpath(os.path.dirname(os.path.dirname(labrea.__file__)))
    want = os.path.realpath(os.environ.get("LABSIM_REPO", "/repo"))
    if root != want:
        print(f"HARNESS-ERROR labrea imported from {root}, expected {want}")
        return 2

    if args.prop == "selftest":
        from . import selftest

        return selftest.main(args)

    from . import core

    prop = load_prop(args.prop)
    if args.replay:
        return core.replay(prop, args.replay, quiet=args.quiet)
    seed = args.seed if args.seed is not None else int(os.environ.get("VERIF_SEED") or 20260926)
    return core.drive(prop, args.tier, seed)


if __name__ == "__main__":
    sys.exit(main())

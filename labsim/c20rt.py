"""Importable stub callables for generated program modules (C20): everything here is picklable by reference,
and functools.partial objects over these functions are picklable by value."""
import copy

from . import rt
from .rt import crepr, freeze


def plain_fn(name, x):
    rt.call("step", name, x=x)
    return ("fn", name, freeze(x))


def callback(name, v):
    rt.call("callback", name, v=v)
    return ("cb", name, freeze(v))


def callback_p(name, x, p):
    rt.call("callback", name, v=x, p=p)
    return ("cb", name, freeze(x), (("p", freeze(p)),))


def effect(name, v):
    rt.call("effect", name, v=v)
    return None


def pred_eq(name, want_repr, v):
    rt.call("pred", name, v=v)
    return crepr(v) == want_repr


def factory(name, const):
    rt.call("factory", name)
    return copy.deepcopy(const)


def dom_pred(name, allowed_reprs, v):
    rt.call("dompred", name, v=v)
    return crepr(v) in allowed_reprs


def body(name, **kw):
    rt.call("body", name, **kw)
    return rt.body_value(name, kw)


def bind_lookup(name, table, default, v):
    rt.call("bindfn", name, v=v)
    return table.get(crepr(v), default)

"""Importable stub callables for generated program modules (C20): everything here is picklable by reference,
and functools.partial objects over these functions are picklable by value."""
import copy

from . import rt
from .rt import crepr, freeze


def plain_fn(name, x):
    rt.call("step", name, x=x)
    return ("fn", name, freeze(x))


def callback(name, v):
    rt.call("callback", name, v=v)
    return ("cb", name, freeze(v))


def callback_p(name, x, p):
    rt.call("callback", name, v=x, p=p)
    return ("cb", name, freeze(x), (("p", freeze(p)),))


def effect(name, v):
    rt.call("effect", name, v=v)
    return None


def pred_eq(name, want_repr, v):
    rt.call("pred", name, v=v)
    return crepr(v) == want_repr


def factory(name, const):
    rt.call("factory", name)
    return copy.deepcopy(const)


def dom_pred(name, allowed_reprs, v):
    rt.call("dompred", name, v=v)
    return crepr(v) in allowed_reprs


def body(name, **kw):
    rt.call("body", name, **kw)
    return rt.body_value(name, kw)


def bind_lookup(name, table, default, v):
    rt.call("bindfn", name, v=v)
    return table.get(crepr(v), default)


# ---- module-level user functions handed to labrea.functions helpers (library pipeline steps)
def pair(a, b):
    rt.call("libfn", "pair", a=a, b=b)
    return ("pair", freeze(a), freeze(b))


def tag(x):
    rt.call("libfn", "tag", x=x)
    return ("tag", freeze(x))


def truthy(x):
    rt.call("libfn", "truthy", x=x)
    return bool(x)


def collect(*x):
    return tuple(freeze(i) for i in x)


def collect1(x):
    """Materialise what a lazy helper (map / filter / flatmap) hands on."""
    rt.call("libfn", "collect1")
    return tuple(freeze(i) for i in x)


def step(fn):
    from labrea import Value
    from labrea.pipeline import PipelineStep

    return PipelineStep(Value(fn))


def twice(x):
    return [x, x]


def pstep(fn):
    from labrea import pipeline_step

    return pipeline_step(fn)


def flatten(x):
    """A USER function named like labrea.functions.flatten (it does something else)."""
    rt.call("libfn", "user_flatten", x=x)
    return ("user-flatten", freeze(x))


def length(x):
    rt.call("libfn", "user_length", x=x)
    return ("user-length", freeze(x))


def negate(x):
    rt.call("libfn", "user_negate", x=x)
    return ("user-negate", freeze(x))

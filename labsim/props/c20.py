"""C20 — datasets survive a pickle round trip with identical behaviour (restart = pickle -> load in the same
or in a freshly started interpreter -> continue the history there)."""
import base64
import copy
import importlib
import json
import os
import pickle
import subprocess
import sys
import tempfile
import types

from labrea import Value

from .. import codegen, gen
from .. import universe as U
from ..core import VERIF, Result, h64
from ..histsim import HistoryProperty, gen_history
from ..world import World, global_state_guard


def load_module(name, source):
    m = types.ModuleType(name)
    m.__file__ = f"<{name}>"
    sys.modules[name] = m
    exec(compile(source, name, "exec"), m.__dict__)
    return m


def strip_side(brief):
    return [x for x in brief if not (isinstance(x, list) and x and x[0] == "side")]


def norm(brief):
    """Outcome image compared across a restart: value text, or the failure classes.  WHICH of several missing
    keys a failure names depends on set iteration order, i.e. on the interpreter's hash seed (DESIGN 2.10 item 2)."""
    side = [x for x in brief if isinstance(x, list) and x and x[0] == "side"]
    core_ = [x for x in brief if not (isinstance(x, list) and x and x[0] == "side")]
    return (core_[:2] if core_ and core_[0] == "err" else core_) + side


def world_over(objs):
    w = World({"nodes": [], "roots": []})
    w.prog.obj = dict(objs)
    return w


def _late_impl():
    return ("late-overload",)


def apply_structural(world, op):
    """Returns None for evaluation ops, else a short text describing what the structural op did (compared across the restart)."""
    if op["op"] == "try_overload":
        # "remain usable for further registration": the overload decorator must behave the same on the reloaded copy
        # (a dataset without a dispatch refuses it, one with a dispatch accepts it)
        try:
            world.prog.obj[op["ds"]].overload(op["alias"])(_late_impl)
            return "accepted"
        except Exception as e:  # noqa: BLE001
            return "refused:" + type(e).__name__
    if op["op"] in ("disable_effects", "enable_effects"):
        getattr(world.prog.obj[op["ds"]], op["op"])()
        return op["op"]
    if op["op"] == "register_node":
        world.prog.obj[op["ds"]].register(op["alias"], world.prog.obj[op["n"]])
        return "registered"
    if op["op"] == "set_dispatch":
        from labrea import Option

        world.prog.obj[op["ds"]].set_dispatch(Option(op["key"]))
        return "dispatch-set"
    if op["op"] == "register_value":
        world.prog.obj[op["ds"]].register(op["alias"], Value(("registered", op["tag"])))
        return "registered"
    return None


def child_continue(item):
    """Runs in a fresh interpreter: import the program module from source, unpickle, continue the ops."""
    tmp = tempfile.mkdtemp(prefix="labsim-c20-")
    try:
        with open(os.path.join(tmp, item["name"] + ".py"), "w") as f:
            f.write(item["source"])
        sys.path.insert(0, tmp)
        importlib.import_module(item["name"])
        try:
            roots = pickle.loads(base64.b64decode(item["pickle"]))
        except Exception as e:  # noqa: BLE001
            return {"error": f"{type(e).__name__}: {e}"}
        w = world_over(roots)
        outs = []
        for op in item["ops"]:
            st = apply_structural(w, op)
            if st is not None:
                outs.append(["struct", st])
                continue
            before = w.snapshot_counts()
            b = w.do(op).brief()
            side = sorted((k[0], k[1], c) for k, c in w.diff_counts(before, w.counts).items() if k[0] in ("effect", "callback"))
            outs.append(b + [["side", side]])
        return {"outs": outs}
    finally:
        sys.path.remove(tmp)
        import shutil

        shutil.rmtree(tmp, ignore_errors=True)


def child_produce(item):
    """Runs in a fresh interpreter: import the program module, run the history up to the restart, pickle the roots.  (With
    BOTH ends fresh, whatever is process-global on the pickling side - counters, ids, registries - starts from the same
    state as on the loading side, as it does when one service writes the file and another one reads it.)"""
    tmp = tempfile.mkdtemp(prefix="labsim-c20-")
    try:
        with open(os.path.join(tmp, item["name"] + ".py"), "w") as f:
            f.write(item["source"])
        sys.path.insert(0, tmp)
        mod = importlib.import_module(item["name"])
        w = world_over(mod.NODES)
        for op in item["ops"]:
            if apply_structural(w, op) is None:
                w.do(op)
        try:
            return {"pickle": base64.b64encode(pickle.dumps(mod.ROOTS, protocol=item["protocol"])).decode()}
        except Exception as e:  # noqa: BLE001
            return {"error": f"{type(e).__name__}: {e}"}
    finally:
        sys.path.remove(tmp)
        import shutil

        shutil.rmtree(tmp, ignore_errors=True)


class C20(HistoryProperty):
    ID = "C20"
    LEVEL = "exploration"
    TECHNIQUE = "deterministic simulation of seeded histories with a restart operation at an arbitrary point: the program (generated importable module) is pickled with a seed-chosen protocol and reloaded in-process or in a freshly exec'd interpreter with a seed-chosen PYTHONHASHSEED (in half of those runs the pickle is also WRITTEN by a fresh interpreter that replayed the history so far), the history continues on both and outcomes are compared op by op"
    LEVEL_TEXT = (
        "Seeded search over (program module, history, restart point, pickle protocol 0-5, in-process | fresh interpreter). Programs are "
        "generated as source text of an importable module whose callables are module-level functions (explicit dataset(f) form, and the "
        "decorator form in a minority of runs). The part of the history before the restart warms the caches; after it, every op "
        "(evaluate / validate / keys, and register followed by evaluate) runs on the never-restarted objects and on the reloaded copy; "
        "outcomes (values, failure classes, keys) must be equal; overloads registered before pickling are preserved by construction of "
        "the comparison. Sampling, not proof."
    )
    LEVEL_NOTE = "Graph parts are picklable by construction (module-level functions, functools.partial over module-level functions); a pickling failure is therefore labrea's. Trusted: the code generator (same source text in both interpreters)."
    DESIGN_REF = "3 C20"
    RULE = (
        "case = program module source + history + restart op; distinct = hash of (source, ops); non-trivial = histories whose "
        "reloaded copy was compared on at least 2 ops after the restart, including a cache hit carried across the restart"
    )
    ASSUMPTIONS = ["the same labrea source tree is importable in the fresh interpreter (PYTHONPATH inherited)"]
    STUBS = ["user callables: module-level functions of labsim.c20rt and of the generated module"]
    QUICK = {"runs": 7000, "wall": 45}
    THOROUGH = {"runs": 150000, "wall": 540}
    NONTRIVIAL_MEASURE = "history_compared_after_restart"

    def gen_case(self, rng, tier):
        # dataset classes pickle by REFERENCE: a round trip carries none of their state (and in one process the copy IS the
        # original), so for graphs that contain one only values / failures / keys are compared, not which effects ran
        cfg = gen.swarm_cfg(rng, off=("shape_change",), on=("dsclass",))
        cfg["plain_case_conditions"] = rng.random() < 0.4  # case(...).when(<plain value>, X): fails at evaluation, before and after alike
        cfg["lib_steps"] = rng.choice([False, "picklable", "picklable", "all"])  # pipeline steps taken from labrea.functions (the library's own helpers)
        spec = gen.prune(gen.gen_spec(rng, cfg))
        for n in spec["nodes"]:
            if n["k"] == "dsclass" and rng.random() < 0.5:
                n["nested"] = True
            if n["k"] == "dataset" and rng.random() < 0.15:
                n["fn_attrs"] = True  # (explicit form only: the function carries unpicklable attributes of other decorators)
        form = "decorator" if rng.random() < 0.12 else "explicit"
        ops = gen_history(rng, cfg, spec, n_ops=rng.randint(3, 12), ops_kinds=("evaluate", "evaluate", "evaluate", "keys", "validate"))
        r = rng.randrange(0, len(ops))
        ds_roots = [x for x in spec["roots"] if gen.node_by_id(spec, x)["k"] == "dataset" and gen.node_by_id(spec, x).get("dispatch") is not None]
        after = ops[r:]
        if ds_roots and rng.random() < 0.5:
            d = rng.choice(ds_roots)
            after.insert(rng.randrange(len(after) + 1), {"op": "register_value", "ds": d, "alias": rng.choice(["a", "b", "c", 1, None]), "tag": "late"})
        pre_restart = []
        if ds_roots and rng.random() < 0.35:
            # evaluated, THEN an overload registered, then pickled without being used in between: the registration must be
            # in force after the restart (nothing remembered from before it may outlive it)
            d = rng.choice(ds_roots)
            disp = gen.node_by_id(spec, d)["dispatch"]
            alias = rng.choice(["a", "b", 1])
            base_o = copy.deepcopy(rng.choice(ops)["o"])
            if isinstance(disp, str):
                base_o[disp] = alias
            pre_restart = [{"op": "evaluate", "node": d, "o": base_o}, {"op": "register_value", "ds": d, "alias": alias, "tag": "before-restart"}]
            after.insert(0, {"op": "evaluate", "node": d, "o": base_o})
        fam = [n for n in spec["nodes"] if n["k"] == "derive" and gen.node_by_id(spec, n["base"])["k"] == "dataset"]
        if fam and rng.random() < 0.35:
            # a dataset and one derived from it travel together; AFTER the restart the origin gets another dispatch and an
            # overload: whatever that means for the derived one, it means the same for the copy
            d = rng.choice(fam)
            spec["roots"] = list(dict.fromkeys(spec["roots"] + [d["id"], d["base"]]))
            key = rng.choice(["M", "M2"])
            base_o = copy.deepcopy(rng.choice(ops)["o"])
            base_o[key] = "a"
            after.append({"op": "set_dispatch", "ds": d["base"], "key": key})
            after.append({"op": "register_value", "ds": d["base"], "alias": "a", "tag": "after-restart"})
            for nid in (d["id"], d["base"], d["id"]):
                after.append({"op": "evaluate", "node": nid, "o": base_o})
        ds_any = [x for x in spec["roots"] if gen.node_by_id(spec, x)["k"] == "dataset"]
        if ds_any and rng.random() < 0.4:
            after.insert(rng.randrange(len(after) + 1), {"op": "try_overload", "ds": rng.choice(ds_any), "alias": rng.choice(["a", "q"])})
        if rng.random() < 0.2:
            # options grouped in a namespace, consumed by a dataset (the namespace object itself is part of the graph)
            k = len(spec["nodes"]) + 50
            members = [{"t": "const", "name": "P", "v": rng.choice([1, "p", None])}, {"t": "sub", "name": "SUB", "v": rng.choice([0, "x"])}]
            if rng.random() < 0.5:
                members.append({"t": "annot", "name": "REQ"})
            spec["nodes"] += [{"k": "namespace", "name": "NSP", "members": members, "id": f"ns{k}"},
                              {"k": "dataset", "name": "OVERNS", "args": {"ns": f"ns{k}"}, "id": f"ns{k + 1}"}]
            spec["roots"] = spec["roots"] + [f"ns{k + 1}"]
            for _ in range(2):
                o = {"NSP": {"P": rng.choice([2, "q"])}} if rng.random() < 0.5 else {}
                if rng.random() < 0.6:
                    o.setdefault("NSP", {})["REQ"] = "r"
                after.insert(rng.randrange(len(after) + 1), {"op": rng.choice(["evaluate", "keys", "validate"]), "node": f"ns{k + 1}", "o": o})
        pre = []
        with_effects = [x for x in spec["roots"] if gen.node_by_id(spec, x)["k"] == "dataset" and gen.node_by_id(spec, x).get("effects")]
        if with_effects and rng.random() < 0.5:
            pre.append({"op": "disable_effects", "ds": rng.choice(with_effects)})
        if rng.random() < 0.35:
            # a cyclic graph: an overload of D that (indirectly) refers back to D through a with_options derivative of D
            # which forces the dispatch key to an unregistered value (so evaluation terminates)
            k = len(spec["nodes"])
            d = {"k": "dataset", "name": "CYC", "args": {"a": rng.choice([n["id"] for n in spec["nodes"]])}, "dispatch": "M", "id": f"c{k}"}
            dd = {"k": "derive", "base": d["id"], "how": "with_options", "options": {"M": "zz-unregistered"}, "id": f"c{k + 1}"}
            wnode = {"k": "dataset", "name": "CYCW", "args": {"x": dd["id"]}, "id": f"c{k + 2}"}
            spec["nodes"] += [d, dd, wnode]
            spec["roots"] = spec["roots"] + [d["id"]]
            pre.append({"op": "register_node", "ds": d["id"], "alias": "cyc", "n": rng.choice([dd["id"], wnode["id"]])})
            for _ in range(2):
                o = {"M": rng.choice(["cyc", "cyc", "other"]), "A": rng.choice(U.SCALARS)}
                after.insert(rng.randrange(len(after) + 1), {"op": "evaluate", "node": d["id"], "o": o})
        restart = {"op": "restart", "how": rng.choice(["fresh", "fresh2"]) if rng.random() < (0.6 if pre_restart else 0.2) else "inproc", "protocol": rng.randrange(0, 6), "hashseed": str(rng.randrange(1, 10**6))}
        return {"cfg": cfg, "spec": spec, "form": form, "ops": pre + ops[:r] + pre_restart + [restart] + after}

    def run_case(self, case):
        res = Result()
        source = codegen.module_source(case["spec"], case["form"])
        name = f"labsim_c20_{h64((source, case['ops'])):x}"
        with global_state_guard():
            try:
                by_reference = any(n["k"] == "dsclass" for n in case["spec"]["nodes"])  # (see gen_case)
                mod = load_module(name, source)
                ref = world_over(mod.NODES)
                copy_w = None
                compared = 0
                carried_hit = False
                pending_fresh = None
                for i, op in enumerate(case["ops"]):
                    if op["op"] == "restart":
                        try:
                            data = pickle.dumps(mod.ROOTS, protocol=op["protocol"])
                        except Exception as e:  # noqa: BLE001
                            res.violate("pickling-failed", op_index=i, protocol=op["protocol"], form=case["form"], error=f"{type(e).__name__}: {str(e)[:300]}")
                            break
                        res.fault(f"restart:{op['how']}:protocol{op['protocol']}")
                        if op["how"] == "inproc":
                            try:
                                copy_w = world_over(pickle.loads(data))
                            except Exception as e:  # noqa: BLE001
                                res.violate("unpickling-failed", op_index=i, protocol=op["protocol"], error=f"{type(e).__name__}: {str(e)[:300]}")
                                break
                        else:
                            pending_fresh = {"name": name, "source": source, "pickle": base64.b64encode(data).decode(), "ops": case["ops"][i + 1:],
                                             "hashseed": op["hashseed"], "at": i}
                            if op["how"] == "fresh2":
                                # the pickle is WRITTEN by a fresh interpreter too (same module, same history so far)
                                made = self._fresh({"produce": True, "name": name, "source": source, "protocol": op["protocol"], "hashseed": op["hashseed"],
                                                    "ops": [{k: v for k, v in o.items() if k != "_ref"} for o in case["ops"][:i]]})
                                res.bump("pickles_written_by_a_fresh_interpreter")
                                if "error" in made:
                                    res.violate("pickling-failed", op_index=i, protocol=op["protocol"], form=case["form"], where="fresh interpreter", error=made["error"][:300])
                                    break
                                pending_fresh["pickle"] = made["pickle"]
                        continue
                    st = apply_structural(ref, op)
                    if st is not None:
                        op["_ref"] = ["struct", st]
                        if copy_w is not None:
                            st2 = apply_structural(copy_w, op)
                            if st2 != st:
                                res.violate("behaviour-differs-after-round-trip", op_index=i, node=op.get("ds"), op_kind=op["op"], original=st, reloaded=st2)
                                break
                        continue
                    before = ref.count("body")
                    rb = ref.snapshot_counts()
                    out = ref.do(op)
                    rside = sorted((k[0], k[1], c) for k, c in ref.diff_counts(rb, ref.counts).items() if k[0] in ("effect", "callback"))
                    op.setdefault("_ref", out.brief() + [["side", [list(x) for x in rside]]])
                    if copy_w is not None:
                        b2 = copy_w.count("body")
                        cb = copy_w.snapshot_counts()
                        got = copy_w.do(op)
                        cside = sorted((k[0], k[1], c) for k, c in copy_w.diff_counts(cb, copy_w.counts).items() if k[0] in ("effect", "callback"))
                        compared += 1
                        if by_reference:
                            # (objects reached THROUGH a class pickled by reference are the importing process' own, no longer
                            #  the same objects as the roots pickled by value next to them: only dumps / loads are judged)
                            res.bump("ops_not_compared_class_pickled_by_reference")
                            continue
                        if cside != rside:
                            # same values but other side behaviour: effects that the original runs / suppresses
                            res.violate("behaviour-differs-after-round-trip", op_index=i, node=op["node"], o=op["o"], op_kind=op["op"], what="effects / callbacks run",
                                        original=[list(x) for x in rside], reloaded=[list(x) for x in cside])
                            break
                        res.bump("ops_compared_after_restart")
                        if copy_w.count("body") == b2 and ref.count("body") == before and op["op"] == "evaluate" and out.ok:
                            carried_hit = True
                        if norm(got.brief()) != norm(out.brief()):
                            res.violate("behaviour-differs-after-round-trip", op_index=i, node=op["node"], o=op["o"], op_kind=op["op"], original=out.brief(), reloaded=got.brief(),
                                        protocol=[o_["protocol"] for o_ in case["ops"] if o_["op"] == "restart"][0])
                            break
                if pending_fresh is not None and not res.violations:
                    want = [op.get("_ref") for op in pending_fresh["ops"]]
                    got = self._fresh(pending_fresh)
                    res.bump("fresh_interpreter_restarts")
                    if "error" in got:
                        res.violate("unpickling-failed", where="fresh interpreter", hashseed=pending_fresh["hashseed"], error=got["error"][:300])
                    else:
                        compared += len(want)
                        for j, (a, b) in enumerate(zip(want, got["outs"])):
                            if not by_reference and norm(a) != norm(b):
                                op = pending_fresh["ops"][j]
                                res.violate("behaviour-differs-after-round-trip", where="fresh interpreter", op_index=pending_fresh["at"] + 1 + j, node=op.get("node"),
                                            o=op.get("o"), original=a, reloaded=b, hashseed=pending_fresh["hashseed"])
                                break
                res.stats["events"] = ref.log.seq
                res.digest = ref.log.digest()
                res.bump("form:" + case["form"])
                res.seen("history", (source, [{k: v for k, v in o.items() if k != "_ref"} for o in case["ops"]]))
                if compared >= 2 and carried_hit:
                    res.seen("history_compared_after_restart", (source, [{k: v for k, v in o.items() if k != "_ref"} for o in case["ops"]]))
                res.sample = dict(self.sample_of(case), form=case["form"], module_source_head=source.split("\n")[8:14])
            finally:
                sys.modules.pop(name, None)
                for op in case["ops"]:
                    op.pop("_ref", None)
        return res

    @staticmethod
    def _fresh(item):
        with tempfile.TemporaryDirectory(prefix="labsim-c20job-") as tmp:
            job = os.path.join(tmp, "job.json")
            with open(job, "w") as f:
                json.dump({"mode": "c20", "items": [item]}, f)
            env = dict(os.environ, PYTHONHASHSEED=item["hashseed"])
            p = subprocess.run([sys.executable, "-m", "labsim.child", job], cwd=VERIF, env=env, capture_output=True, text=True, timeout=300)
            if p.returncode != 0:
                raise RuntimeError(f"child interpreter failed: {p.stderr[-2000:]}")
            return json.loads(p.stdout)["out"][0]

    def signature(self, case, violation):
        if violation["kind"] == "pickling-failed" and case["form"] == "decorator":
            return "decorator-form-function-not-importable-by-name"
        if violation["kind"] == "pickling-failed" and "Can't pickle local object" in str(violation.get("detail", {}).get("error")):
            local = [e.split("(")[0][2:] for e in gen.LIB_STEPS_LOCAL] + ["gt", "eq", "is_in", "instance_of", "concat"]
            import re

            m = re.search(r"local object '(\w+)\.<locals>", str(violation["detail"]["error"]))
            if m and m.group(1) in local and any(
                    f.get("expr") in gen.LIB_STEPS_LOCAL for n in case["spec"]["nodes"] if n["k"] == "apply" for f in [n["fn"]] if f["t"] == "lib"):
                return "functions-helper-closes-over-a-lambda"
        return None

    def known_probes(self):
        spec = {"nodes": [{"id": "n0", "k": "opt", "key": "A", "default": {"t": "const", "v": 1}}, {"id": "n1", "k": "dataset", "name": "D0", "args": {"a": "n0"}}], "roots": ["n1"]}
        ops = [{"op": "evaluate", "node": "n1", "o": {}}, {"op": "restart", "how": "inproc", "protocol": 4, "hashseed": "1"}, {"op": "evaluate", "node": "n1", "o": {}}]
        spec2 = {"nodes": [{"id": "n0", "k": "opt", "key": "L", "default": {"t": "const", "v": [1, 2]}},
                           {"id": "n1", "k": "apply", "src": "n0", "via": "rshift", "fn": {"t": "lib", "expr": "F.into(_s.collect)", "refs": {}}},
                           {"id": "n2", "k": "dataset", "name": "D0", "args": {"a": "n1"}}], "roots": ["n2"]}
        ops2 = [{"op": "evaluate", "node": "n2", "o": {}}, {"op": "restart", "how": "inproc", "protocol": 4, "hashseed": "1"}, {"op": "evaluate", "node": "n2", "o": {}}]
        return [("KF-C20-decorator-form-unpicklable", {"cfg": {}, "spec": spec, "form": "decorator", "ops": ops}),
                ("KF-C20-functions-helpers-close-over-lambdas", {"cfg": {}, "spec": spec2, "form": "explicit", "ops": ops2})]

    def shrink_candidates(self, case):
        for c in super().shrink_candidates(case):
            if any(op["op"] == "restart" for op in c["ops"]):
                yield c
        if case["form"] == "explicit":
            pass
        r = [op for op in case["ops"] if op["op"] == "restart"][0]
        if r["how"] == "fresh2":
            ops = [dict(op, how="fresh") if op["op"] == "restart" else op for op in case["ops"]]
            yield dict(case, ops=ops)
        if r["how"] in ("fresh", "fresh2"):
            ops = [dict(op, how="inproc") if op["op"] == "restart" else op for op in case["ops"]]
            yield dict(case, ops=ops)

"""C14 — handler scoping: the entered runtime serves; leaving a block restores the prior one.

runtime-sim: seeded histories (trees of with-blocks with enter / exit / exit-by-exception / derive /
register-default / run ops) executed against labrea.runtime with real `with` statements, in the main
thread (has a runtime) or in a fresh worker thread (has none), against a per-thread stack model.
After EVERY op all request types are probed and compared with the model, and the identity of the
current runtime is compared with the model's stack top.
"""
import threading

import labrea.cache
import labrea.logging
import labrea.runtime as lrt

import collections
import collections.abc
from types import MappingProxyType

from ..core import Property, Result, h64
from ..rt import Log
from ..world import global_state_guard


class _UserMapping(collections.abc.Mapping):
    """A user-defined Mapping (not a dict subclass) over a dictionary."""

    def __init__(self, d):
        self._d = d

    def __getitem__(self, k):
        return self._d[k]

    def __iter__(self):
        return iter(self._d)

    def __len__(self):
        return len(self._d)


def _wrapped(over, wrap, res):
    """The table of overrides as handed to handle(): the dictionary itself or a non-dict Mapping view of it."""
    if wrap == "proxy":
        res.bump("derive_from_mappingproxy")
        return MappingProxyType(over)
    if wrap == "chain":
        res.bump("derive_from_chainmap")
        return collections.ChainMap(over)
    if wrap == "usermap":
        res.bump("derive_from_user_mapping")
        return _UserMapping(over)
    return over

NTYPES = 3


class SimRaise(Exception):
    def __init__(self, k):
        super().__init__(k)
        self.k = k


# (a block can also be left by GeneratorExit -- a generator suspended inside `with handle(...)` is closed --, which is no
#  Exception subclass; the plain class is raised, its argument counts the blocks still to leave)
SIM_EXITS = (SimRaise, GeneratorExit)


_NONCE = [""]  # identifies the run a handler was made in (request types are the same objects in every run of a process)


class _RecordingHandler:
    """A handler OBJECT that keeps what it has served (a buffering / recording callable): it has a length, and while it has
    served nothing it is falsy."""

    def __init__(self, tag, made_in):
        self.tag, self.made_in, self.served = tag, made_in, []
        self.__name__ = f"h_{tag}"

    def __len__(self):
        return 0  # (never fills: what matters is that truthiness is no test for "there is a handler")

    def __call__(self, request):
        return self.tag if self.made_in == _NONCE[0] else f"stale-handler-of-an-earlier-run:{self.tag}"


def _handler(tag):
    made_in = _NONCE[0]
    if sum(map(ord, tag)) % 2:
        return _RecordingHandler(tag, made_in)

    def h(request):
        # a handler that outlived its run (process-global state of labrea that the harness does not know) shows as such
        return tag if made_in == _NONCE[0] else f"stale-handler-of-an-earlier-run:{tag}"

    h.__name__ = f"h_{tag}"
    return h


# the request types: made once per process, like a library's own request classes
_TYPES = [type(f"T{t}", (lrt.Request,), {"__init__": lambda self, k=0: setattr(self, "k", k)}) for t in range(3)]


def _raiser(request):
    raise SimRaise(request.k)


def _keyerror_handler(request):
    """A handler whose own lookup fails: the KeyError is the handler's answer, not 'no handler'."""
    raise KeyError("handler-internal lookup")


class C14(Property):
    ID = "C14"
    LEVEL = "exploration"
    ENGINE = "runtime-sim"
    TECHNIQUE = "deterministic simulation of seeded enter/exit/raise/derive/register/run histories of the handler runtime against a per-thread stack model, probing every request type after every operation"
    LEVEL_TEXT = (
        "Seeded search over well-nested histories (<=16 ops, nesting <=5, 3 request types, <=6 runtime objects incl. re-entered, "
        "reused, derived-elsewhere and labrea's own cache/logging.disabled() runtimes) in a thread with and without an existing "
        "runtime; after every op all request types are probed against a stack model and the current runtime's identity is "
        "compared. Sampling, not proof; histories are short because every known failure needs <=5 ops."
    )
    LEVEL_NOTE = "Trusted: the 40-line stack model (holds = explicit handlers inherited at derivation; lookup = holds -> defaults now -> TypeError). A default registered AGAIN for a type makes the model accept any of that type's defaults from then on (the statement does not settle snapshot vs. latest); the derive-time relation 'derived serves what its source serves' stays exact."
    DESIGN_REF = "3 C14"
    RULE = (
        "case = seeded tree of ops {block(R){...}, new, derive(from any runtime | current, pair or mapping form), builtin "
        "cache/logging.disabled(), register-default (only for types without one), run, raise k levels, run a raising handler}; "
        "oracle = per-thread stack model, all request types probed after every op + identity of the current runtime; "
        "distinct = hash of the op tree; non-trivial = histories with nesting >= 2 or an exception exit or a re-entered runtime"
    )
    ASSUMPTIONS = ["no default handler is replaced once registered", "handlers are pure functions returning their tag"]
    REAL = ["labrea/runtime.py, labrea/cache.py:disabled, labrea/logging.py:disabled (unmodified)"]
    STUBS = ["request types T0..T2 and their handlers (return a tag / raise)"]
    QUICK = {"runs": 400000, "wall": 35}
    THOROUGH = {"runs": 3000000, "wall": 420}
    NONTRIVIAL_MEASURE = "nontrivial_history"

    # ------------------------------------------------------------------ generation
    def gen_case(self, rng, tier):
        state = {"nrt": 0, "budget": rng.randint(3, 16), "defaults": set(), "rts": []}
        in_worker = rng.random() < 0.4
        # some types get a default before the history starts
        pre = [t for t in range(NTYPES) if rng.random() < 0.5]
        state["defaults"] = set(pre)
        body = self._gen_body(rng, state, depth=0, active=[])
        return {"worker": in_worker, "pre_defaults": pre, "ops": body}

    def _new_rt(self, state):
        r = f"R{state['nrt']}"
        state["nrt"] += 1
        state["rts"].append(r)
        return r

    def _tagmap(self, rng, state, allow_raiser=True):
        m = {}
        for t in rng.sample(range(NTYPES), rng.randint(0, 2)):
            x = rng.random()
            m[str(t)] = "RAISE" if allow_raiser and x < 0.1 else "KEYERROR" if x < 0.17 else f"h{state['nrt']}_{t}"
        return m

    def _gen_body(self, rng, state, depth, active):
        ops = []
        while state["budget"] > 0:
            state["budget"] -= 1
            x = rng.random()
            if x < 0.22 and depth < 5 and state["rts"]:
                # enter an existing runtime: fresh, reused, or already active (re-entry)
                if active and rng.random() < 0.25:
                    r = rng.choice(active)
                else:
                    r = rng.choice(state["rts"])
                body = self._gen_body(rng, state, depth + 1, active + [r])
                ops.append({"op": "block", "r": r, "body": body})
            elif x < 0.27 and state.get("spawn_depth", 0) < 1:
                # a new thread started and joined here; its blocks nest from zero
                state["spawn_depth"] = state.get("spawn_depth", 0) + 1
                body = self._gen_body(rng, state, 0, [])
                state["spawn_depth"] -= 1
                ops.append({"op": "spawn", "inherit": rng.random() < 0.5, "body": body})
            elif x < 0.34:
                ops.append({"op": "new", "r": self._new_rt(state), "handlers": self._tagmap(rng, state)})
            elif x < 0.52:
                src = rng.choice(state["rts"] + ["current"]) if state["rts"] else "current"
                ops.append({"op": "derive", "r": self._new_rt(state), "src": src, "overrides": self._tagmap(rng, state) or {"0": f"h{state['nrt']}_0"},
                            "form": rng.choice(["pair", "mapping"]), "then_mutate": rng.random() < 0.3,
                            # the table of overrides as a Mapping that is not a dict (a read-only view of a registry, a ChainMap, a
                            # user-defined Mapping); chosen from the runtime counter so that the random stream is unchanged
                            "wrap": (None, "proxy", None, "chain", None, "usermap")[state["nrt"] % 6]})
            elif x < 0.58:
                ops.append({"op": "builtin", "r": self._new_rt(state), "which": rng.choice(["cache", "logging"])})
            elif x < 0.66:
                cand = [t for t in range(NTYPES) if t not in state["defaults"]]
                if state["defaults"] and rng.random() < 0.5:
                    # the default of a type is registered AGAIN with another handler (runtimes created before may keep
                    # serving the old one; what a derived runtime serves must be what its source serves)
                    state["rereg"] = state.get("rereg", 0) + 1
                    ops.append({"op": "regdef", "t": rng.choice(sorted(state["defaults"])), "v": state["rereg"]})
                elif cand:
                    t = rng.choice(cand)
                    state["defaults"].add(t)
                    ops.append({"op": "regdef", "t": t})
            elif x < 0.80:
                y = rng.random()
                if y < 0.12:
                    # a request type DECLARED now as a subclass of one of the types: handlers are looked up by exact type, so
                    # nothing serves it (no runtime holds it, no default was registered for it)
                    ops.append({"op": "run_subtype", "t": rng.randrange(NTYPES)})
                elif y < 0.15:
                    ops.append({"op": "fork_probe"})
                elif y < 0.25:
                    # a worker inherits from a thread that has FINISHED (it had inherited from this thread here and now)
                    ops.append({"op": "spawn_from_finished", "between": rng.choice([None, None, "block"])})
                else:
                    ops.append({"op": "run", "t": rng.randrange(NTYPES)})
            elif x < 0.88 and depth > 0:
                ops.append({"op": "raise", "k": rng.randint(1, depth), **({"exc": "genexit"} if rng.random() < 0.25 else {})})
                break  # the rest of this body would be dead code
            elif x < 0.92 and depth > 0:
                ops.append({"op": "run_raise", "t": rng.randrange(NTYPES), "k": rng.randint(1, depth)})
                # only raises if the serving handler is a raiser; otherwise continues
            elif (depth > 0 or state.get("spawn_depth", 0) > 0) and rng.random() < 0.5:
                break  # normal exit of this block / end of the spawned thread's script
        return ops

    # ------------------------------------------------------------------ execution
    def run_case(self, case):
        res = Result()
        box = {}
        shared = {}

        def target():
            try:
                self._execute(case, res, box, shared)
            except BaseException as e:  # noqa: BLE001
                box["crash"] = repr(e)

        with global_state_guard():
            if case["worker"]:
                th = threading.Thread(target=target, name="W0")
                th.start()
                th.join()
            else:
                target()
        if "crash" in box and not res.violations:
            res.violate("harness-or-library-crash", error=box["crash"])
        log = box.get("log")
        res.digest = log.digest() if log else ""
        res.stats["events"] = log.seq if log else 0
        res.seen("history", case)
        if box.get("nontrivial"):
            res.seen("nontrivial_history", case)
        res.sample = case
        return res

    def _execute(self, case, res, box, shared):
        log = box["log"] = Log()
        # fresh request types per run
        types = _TYPES
        _NONCE[0] = f"{h64(case):x}"
        shared.update({"pre_defaults": list(case["pre_defaults"]), "seq": 0, "last_rereg": {}, "defaults": {}, "default_tags": {}, "holds": {}, "objs": {}, "types": types, "log": log, "nthreads": 0})
        for t in case["pre_defaults"]:
            lrt.handle_by_default(types[t], _handler(f"d{t}"))
            shared["defaults"][t] = f"d{t}"
            shared["default_tags"][t] = {f"d{t}"}
        st = box["st"] = {"maxdepth": 0, "exc_exit": False, "reentry": False, "spawned": 0}
        # "a thread whose runtime already exists": the main-thread variant asks for its runtime first (public API)
        base_obj = None if case["worker"] else lrt.current_runtime()
        self._thread_script(case["ops"], res, shared, st, base_holds={}, base_obj=base_obj, label="")
        box["nontrivial"] = st["maxdepth"] >= 2 or st["exc_exit"] or st["reentry"] or st["spawned"] > 0

    def _thread_script(self, script_ops, res, shared, st, base_holds, base_obj, label, inherited=False, frozen=None):
        """Interpret one thread's ops against its own stack model (shared: runtime objects, defaults)."""
        types, objs, holds_of, defaults, log = shared["types"], shared["objs"], shared["holds"], shared["defaults"], shared["log"]
        stack = []

        def cur_holds():
            return holds_of[stack[-1]] if stack else base_holds

        def expected(t):
            h = cur_holds()
            if t in h:
                return h[t]
            if not stack and t in frozen:
                # inherit(): "the handlers its parent had at that moment" -- a default the parent's runtime has held since before
                # the history began, and that had not been replaced when the worker inherited, stays whatever is registered later
                return frozen[t]
            if len(shared["default_tags"].get(t, ())) > 1:
                # re-registered default: the statement does not settle whether a runtime OBJECT created in between serves
                # the handler it saw at creation or the latest one -> any of them (the derive-time relation below is exact).
                # Exact again where no such object exists: no block entered, and the thread's own runtime (made by its first
                # request, gone again when it leaves its outermost block) is younger than the last re-registration.
                own = stack or base_obj is not None or base_holds or inherited
                if own or (tstate["rt_seq"] is not None and tstate["rt_seq"] < shared["last_rereg"].get(t, -1)):
                    return set(shared["default_tags"][t])
            return defaults.get(t, "TypeError")

        tstate = {"rt_seq": None}
        frozen = dict(frozen or {})

        def touch():
            """The thread asks for its current runtime: one is made for it now if it has none."""
            if not stack and tstate["rt_seq"] is None:
                tstate["rt_seq"] = shared["seq"]

        def differs(got, want):
            return (got not in want) if isinstance(want, set) else (got != want)

        def observe_raw(t, k=0):
            try:
                return types[t](k).run()
            except TypeError:
                return "TypeError"
            except KeyError:
                return "KEYERROR"
            except SimRaise:
                return "RAISE"

        def observe(t, k=0):
            touch()
            try:
                return types[t](k).run()
            except TypeError:
                return "TypeError"
            except KeyError:
                return "KEYERROR"
            except SimRaise:
                return "RAISE"

        def probe(where):
            if res.violations:
                return
            for t in range(NTYPES):
                try:
                    got = observe(t)
                except Exception as e:  # noqa: BLE001
                    res.violate("crash-on-request", where=where, type=t, error=f"{type(e).__name__}: {e}", stack=list(stack))
                    return
                want = expected(t)
                log.add("probe", where, t, got)
                res.bump("probes")
                if differs(got, want):
                    res.violate("wrong-handler", where=where, type=t, got=got, want=sorted(want) if isinstance(want, set) else want, stack=list(stack))
                    return
            # identity of the current runtime
            top = stack[-1] if stack else None
            cur = lrt.current_runtime()
            if top is not None and cur is not objs[top]:
                res.violate("wrong-current-runtime", where=where, stack=list(stack))
            elif top is None and base_obj is not None and cur is not base_obj:
                res.violate("initial-runtime-not-restored", where=where)

        def handlers_of(tagmap):
            return {types[int(t)]: (_raiser if tag == "RAISE" else _keyerror_handler if tag == "KEYERROR" else _handler(tag)) for t, tag in tagmap.items()}

        def run_ops(ops, path):
            for i, op in enumerate(ops):
                if res.violations:
                    return
                where = f"{label}{path}{i}:{op['op']}"
                kind = op["op"]
                res.bump("ops")
                log.add("op", where)
                if kind == "block":
                    r = op["r"]
                    if r in stack:
                        st["reentry"] = True
                        res.bump("reentered_runtime")
                    try:
                        with objs[r]:
                            stack.append(r)
                            st["maxdepth"] = max(st["maxdepth"], len(stack))
                            probe(where + ":entered")
                            run_ops(op["body"], f"{path}{i}.")
                            stack.pop()
                    except SIM_EXITS as e:
                        stack.pop()
                        st["exc_exit"] = True
                        res.bump("exits_by_exception")
                        if isinstance(e, SimRaise):
                            e.k -= 1
                            left = e.k
                        else:
                            left = e.args[0] - 1
                            e.args = (left,)
                            res.bump("exits_by_generator_exit")
                        if left > 0:
                            raise
                    probe(where + ":left")
                    continue
                if kind == "spawn":
                    # a new thread, started and joined right here (the parent may be inside blocks)
                    st["spawned"] += 1
                    res.bump("threads_spawned")
                    parent_thread = threading.current_thread()
                    parent_holds = dict(cur_holds())
                    # (only where the PARENT is served unambiguously: its runtime exists -- base object or own runtime made by an
                    #  earlier request --, holds the pre-history default in its snapshot, and nothing re-registered it so far)
                    parent_has_rt = bool(stack) or base_obj is not None or tstate["rt_seq"] is not None or inherited
                    frozen_for_child = {t: f"d{t}" for t in shared["pre_defaults"] if parent_has_rt and t not in parent_holds
                                        and len(shared["default_tags"].get(t, ())) == 1}
                    if inherited and not stack:
                        frozen_for_child.update({t: v for t, v in frozen.items() if t not in parent_holds})
                    shared["nthreads"] += 1
                    err = {}

                    def child(op=op):
                        try:
                            b = {}
                            if op.get("inherit"):
                                lrt.inherit(parent_thread)
                                b = parent_holds
                                res.bump("inherit_calls")
                            self._thread_script(op["body"], res, shared, st, base_holds=b, base_obj=None, label=f"{where}>", inherited=bool(op.get("inherit")),
                                                frozen=frozen_for_child if op.get("inherit") else None)
                        except SIM_EXITS:
                            pass
                        except BaseException as e:  # noqa: BLE001
                            err["e"] = repr(e)

                    th = threading.Thread(target=child, name=f"S{shared['nthreads']}")
                    th.start()
                    th.join()
                    if err and not res.violations:
                        res.violate("crash-in-spawned-thread", where=where, error=err["e"])
                    probe(where + ":joined")
                    continue
                if kind == "new":
                    objs[op["r"]] = lrt.Runtime(handlers_of(op["handlers"]))
                    holds_of[op["r"]] = {int(t): tag for t, tag in op["handlers"].items()}
                elif kind == "derive":
                    over = handlers_of(op["overrides"])
                    if op["src"] == "current":
                        src_holds = cur_holds()
                        touch()
                        if op["form"] == "pair" and len(over) == 1:
                            ((ty, h),) = over.items()
                            objs[op["r"]] = lrt.handle(ty, h)
                        else:
                            objs[op["r"]] = lrt.handle(_wrapped(over, op.get("wrap"), res))
                    else:
                        src_holds = holds_of[op["src"]]
                        if op["form"] == "pair" and len(over) == 1:
                            ((ty, h),) = over.items()
                            objs[op["r"]] = objs[op["src"]].handle(ty, h)
                        else:
                            objs[op["r"]] = objs[op["src"]].handle(_wrapped(over, op.get("wrap"), res))
                    if op.get("then_mutate"):
                        # the caller goes on using ITS dictionary (a scratch mapping reused for the next derivation): the runtime
                        # derived from it took what it needed at that moment
                        for ty in list(over):
                            over[ty] = _handler("scratch-mapping-reused")
                        over[types[(int(next(iter(op["overrides"]), 0)) + 1) % NTYPES]] = _handler("scratch-mapping-reused")
                        res.bump("mappings_mutated_after_derive")
                    holds_of[op["r"]] = {**src_holds, **{int(t): tag for t, tag in op["overrides"].items()}}
                    # "a derived runtime holds the handlers of the runtime it was derived from plus its overrides", as a
                    # relation between what the two serve right now (exact also after a default was registered again)
                    for t in range(NTYPES):
                        if str(t) in op["overrides"]:
                            continue
                        if op["src"] == "current":
                            a = observe(t)
                        else:
                            with objs[op["src"]]:
                                a = observe(t)
                        with objs[op["r"]]:
                            b = observe(t)
                        res.bump("derive_relations_checked")
                        if a != b:
                            res.violate("derived-runtime-serves-differently-from-its-source", where=where, type=t, source=a, derived=b, stack=list(stack))
                            return
                elif kind == "builtin":
                    src_holds = cur_holds()
                    touch()
                    objs[op["r"]] = labrea.cache.disabled() if op["which"] == "cache" else labrea.logging.disabled()
                    holds_of[op["r"]] = dict(src_holds)
                elif kind == "regdef":
                    tag = f"d{op['t']}" + (f"v{op['v']}" if op.get("v") else "")
                    lrt.handle_by_default(types[op["t"]], _handler(tag))
                    defaults[op["t"]] = tag
                    shared["default_tags"].setdefault(op["t"], set()).add(tag)
                    shared["seq"] += 1
                    if op.get("v"):
                        shared["last_rereg"][op["t"]] = shared["seq"]
                    shared["seq"] += 1
                    res.bump("defaults_registered_again" if op.get("v") else "defaults_registered_late")
                elif kind == "run_subtype":
                    sub = type(f"Sub{op['t']}", (types[op["t"]],), {})
                    touch()
                    try:
                        got = sub().run()
                    except TypeError:
                        got = "TypeError"
                    except KeyError:
                        got = "KEYERROR"
                    except SimRaise:
                        got = "RAISE"
                    log.add("run_subtype", where, got)
                    res.bump("requests_of_a_subtype")
                    if got != "TypeError":
                        res.violate("wrong-handler", where=where, type=f"subtype of {op['t']}", got=got, want="TypeError", stack=list(stack))
                        return
                elif kind == "spawn_from_finished":
                    # P inherits from this thread and ends; (a block is entered and left;) C inherits from the finished P
                    me = threading.current_thread()
                    touch()
                    want_holds = dict(cur_holds())
                    own = bool(stack or base_obj is not None or base_holds or inherited)
                    p_thread = threading.Thread(target=lambda: lrt.inherit(me), name="P")
                    p_thread.start()
                    p_thread.join()
                    if op.get("between") == "block":
                        with lrt.Runtime({}):
                            pass
                    seen = {}

                    def c_body():
                        lrt.inherit(p_thread)
                        for t in range(NTYPES):
                            seen[t] = observe_raw(t)

                    c_thread = threading.Thread(target=c_body, name="C")
                    c_thread.start()
                    c_thread.join()
                    res.bump("inherits_from_a_finished_thread")
                    for t in range(NTYPES):
                        if t in want_holds:
                            want = want_holds[t]
                        elif len(shared["default_tags"].get(t, ())) > 1:
                            want = set(shared["default_tags"][t])
                        else:
                            want = defaults.get(t, "TypeError")
                        log.add("from_finished", where, t, seen.get(t))
                        if differs(seen.get(t), want):
                            res.violate("inherit-from-finished-thread-lost-its-handlers", where=where, type=t, got=seen.get(t),
                                        want=sorted(want) if isinstance(want, set) else want, stack=list(stack))
                            return
                elif kind == "fork_probe":
                    # os.fork() inside the blocks (a multiprocessing fork worker started here): the child is this thread, in
                    # these blocks, and is served like it
                    import json as _json
                    import os as _os

                    touch()
                    rfd, wfd = _os.pipe()
                    pid = _os.fork()
                    if pid == 0:
                        try:
                            _os.close(rfd)
                            _os.write(wfd, _json.dumps([observe_raw(t) for t in range(NTYPES)]).encode())
                        finally:
                            _os._exit(0)
                    _os.close(wfd)
                    data = b""
                    while True:
                        chunk = _os.read(rfd, 65536)
                        if not chunk:
                            break
                        data += chunk
                    _os.close(rfd)
                    _os.waitpid(pid, 0)
                    seen_in_child = _json.loads(data.decode() or "[]")
                    res.bump("forks_inside_blocks")
                    for t, got in enumerate(seen_in_child):
                        want = expected(t)
                        log.add("fork", where, t, got)
                        if differs(got, want):
                            res.violate("forked-child-served-differently", where=where, type=t, got=got, want=sorted(want) if isinstance(want, set) else want, stack=list(stack))
                            return
                elif kind == "run":
                    got = observe(op["t"])
                    log.add("run", where, got)
                    if differs(got, expected(op["t"])):
                        want = expected(op["t"])
                        res.violate("wrong-handler", where=where, type=op["t"], got=got, want=sorted(want) if isinstance(want, set) else want, stack=list(stack))
                        return
                elif kind == "raise":
                    raise (GeneratorExit if op.get("exc") == "genexit" else SimRaise)(op["k"])
                elif kind == "run_raise":
                    if expected(op["t"]) == "RAISE":
                        res.bump("handler_raised_through_blocks")
                        types[op["t"]](op["k"]).run()  # raises SimRaise(k) through k blocks
                    else:
                        observe(op["t"])
                probe(where)

        probe(label + "start")
        try:
            run_ops(script_ops, "")
        except SIM_EXITS:
            pass
        except KeyError as e:
            # a shrunk candidate that uses a runtime before creating it is not a valid history
            res.violations.clear()
            res.bump("invalid_candidate")
            return
        probe(label + "end")

    # ------------------------------------------------------------------ shrinking
    def shrink_candidates(self, case):
        import copy

        def variants(ops):
            for i in range(len(ops)):
                yield ops[:i] + ops[i + 1:]
                if ops[i]["op"] in ("block", "spawn"):
                    yield ops[:i] + ops[i]["body"] + ops[i + 1:]  # unwrap
                    for sub in variants(ops[i]["body"]):
                        new = copy.deepcopy(ops)
                        new[i]["body"] = sub
                        yield new
                if ops[i]["op"] in ("new", "derive") and len(ops[i].get("handlers", ops[i].get("overrides", {}))) > 1:
                    key = "handlers" if ops[i]["op"] == "new" else "overrides"
                    for t in list(ops[i][key]):
                        new = copy.deepcopy(ops)
                        del new[i][key][t]
                        yield new

        for ops in variants(case["ops"]):
            yield dict(case, ops=ops)
        if case["pre_defaults"]:
            for t in case["pre_defaults"]:
                yield dict(case, pre_defaults=[x for x in case["pre_defaults"] if x != t])
        if case["worker"]:
            yield dict(case, worker=False)

"""C18 — every core operation is an interceptable request; pass-through changes nothing; a substituted
result for one dataset is honoured wherever that dataset is used."""
import contextlib
import copy
import inspect
import logging
import sys

import labrea
import labrea.cache as lcache
import labrea.logging as llog
import labrea.runtime as lrt
import labrea.type_validation as ltv
import labrea.types as ltypes
from labrea.option import Option

from .. import gen
from .. import universe as U
from ..build import PROG_MODULE
from ..core import Result
from ..histsim import HistoryProperty, gen_history
from ..world import World, global_state_guard

CORE = {
    "evaluate": (ltypes.EvaluateRequest, "evaluatable", ltypes._evaluate_request),
    "validate": (ltypes.ValidateRequest, "validatable", ltypes._validate_request),
    "keys": (ltypes.KeysRequest, "cacheable", ltypes._keys_request),
    "explain": (ltypes.ExplainRequest, "explainable", ltypes._explain_request),
}
OTHER = {
    "cache-get": (lcache.CacheGetRequest, lcache._get_cache_handler),
    "cache-set": (lcache.CacheSetRequest, lcache._set_cache_handler),
    "cache-exists": (lcache.CacheExistsRequest, lcache._exists_cache_handler),
    "log": (llog.LogRequest, llog._builtin_logging_handler),
    "type-validation": (ltv.TypeValidationRequest, ltv._empty_handler),
}
SENTINEL = "SENT"


def reflect_implementations():
    """code object -> (operation, class name) for every implementation of the four core methods in labrea.*:
    the saved __labrea_<op>__ function, or the raw method itself when a class managed to keep it unwrapped."""
    out = {}
    classes = set()
    for name, mod in list(sys.modules.items()):
        if not (name == "labrea" or name.startswith("labrea.")) or mod is None:
            continue
        for obj in vars(mod).values():
            if inspect.isclass(obj) and obj.__module__.startswith("labrea") and issubclass(obj, (ltypes.Validatable, ltypes.Cacheable, ltypes.Explainable)):
                classes.add(obj)
    for cls in classes:
        for op in CORE:
            saved = cls.__dict__.get(f"__labrea_{op}__")
            raw = cls.__dict__.get(op)
            for fn in (saved, raw):
                if fn is None or getattr(fn, "__labrea_wrapper__", False):
                    continue
                code = getattr(fn, "__code__", None)
                if code is not None and code.co_name not in ("__labrea_evaluate__", "__labrea_validate__", "__labrea_keys__", "__labrea_explain__"):
                    out[code] = (op, cls.__name__)
    backend = {}
    for cls in (lcache.MemoryCache, lcache.NoCache):
        for m in ("get", "set", "exists"):
            fn = cls.__dict__.get(m)
            if fn is not None:
                backend[fn.__code__] = (m, cls.__name__)
    return out, backend, len(classes)


class Monitor:
    """In-flight request stack + profile hook: no implementation runs without a request for the same object."""

    def __init__(self, res):
        self.res = res
        self.stack = []
        self.seen = {}
        self.impl, self.backend, self.nclasses = reflect_implementations()
        self.entered = set()
        self.cached_entered = []  # Cached objects whose evaluate implementation ran (this op)
        self.cache_lookups = set()  # (id(evaluatable), id(cache)) of the CacheExistsRequests seen (this op)
        self.values_seen = set()  # marker constants whose Value node was evaluated through a request (this op)
        self.option_keys = set()  # keys of the plain Options evaluated through a request (this op)
        self.evaluated_ok = set()  # id() of the objects whose evaluate request completed (this op)
        self.violation = None

    def handlers(self, only=None):
        hs = {}
        for op, (req, attr, default) in CORE.items():
            if only and op not in only:
                continue
            hs[req] = self._core(op, attr, default)
        for op, (req, default) in OTHER.items():
            if only and op not in only:
                continue
            hs[req] = self._other(op, default)
        return hs

    def _core(self, op, attr, default):
        def h(request):
            entry = [op, getattr(request, attr), 0, False]  # (operation, object, type validations seen, implementation entered)
            self.stack.append(entry)
            self.seen[op] = self.seen.get(op, 0) + 1
            if op == "evaluate" and type(entry[1]) is ltypes.Value and isinstance(entry[1].value, str) and entry[1].value.startswith("pv"):
                self.values_seen.add(entry[1].value)
            if op == "evaluate" and type(entry[1]) is Option:
                self.option_keys.add(entry[1].key)
            try:
                out = default(request)
            finally:
                self.stack.pop()
            if op == "evaluate":
                self.evaluated_ok.add(id(entry[1]))
            if op == "evaluate" and type(entry[1]) is Option and entry[2] == 0 and self.violation is None:
                self.violation = ("option-evaluated-without-type-validation-request", {"option": repr(entry[1])})
            return out

        return h

    def _other(self, op, default):
        def h(request):
            self.seen[op] = self.seen.get(op, 0) + 1
            if op == "type-validation":
                for e in reversed(self.stack):
                    if e[0] == "evaluate" and type(e[1]) is Option:
                        e[2] += 1
                        break
            entry = [op, getattr(request, "cache", None), 0]
            if op == "cache-exists":
                self.cache_lookups.add((id(request.evaluatable), id(request.cache)))
            self.stack.append(entry)
            try:
                return default(request)
            finally:
                self.stack.pop()

        return h

    def profile(self, frame, event, arg):
        if event != "call":
            return
        code = frame.f_code
        hit = self.impl.get(code)
        if hit is not None:
            op, cls = hit
            me = frame.f_locals.get(code.co_varnames[0]) if code.co_argcount else None
            self.entered.add((op, cls))
            if cls == "Cached" and op == "evaluate" and me is not None:
                self.cached_entered.append(me)
            # one request, one run of the implementation: a re-entry of the same object (a recursive graph, other options) needs
            # a request of its own, an outer one still in flight does not cover it
            mine = next((e for e in reversed(self.stack) if e[0] == op and e[1] is me and not e[3]), None)
            if mine is not None:
                mine[3] = True
            elif self.violation is None:
                self.violation = ("implementation-entered-without-request", {"operation": op, "type": cls, "object": repr(me)[:120]})
            return
        hit = self.backend.get(code)
        if hit is not None:
            m, cls = hit
            me = frame.f_locals.get("self")
            if not any(e[0].startswith("cache-") and e[1] is me for e in self.stack) and self.violation is None:
                self.violation = ("cache-backend-called-without-request", {"method": m, "backend": cls})


def _markers(frozen_kw):
    """Marker constants among the POSITIONAL arguments of a stub call (not inside values: those may come out of a cache)."""
    for item in frozen_kw[1:]:
        if item[0] == "args":
            return [x for x in item[1] if isinstance(x, str) and x.startswith("pv")]
    return []


class _Sink(logging.Handler):
    def __init__(self, monitor):
        super().__init__(level=logging.DEBUG)
        self.monitor = monitor

    def emit(self, record):
        m = self.monitor
        if m is not None and m.active and not any(e[0] == "log" for e in m.stack) and m.violation is None:
            m.violation = ("log-emitted-without-request", {"message": record.getMessage()[:100]})


class C18(HistoryProperty):
    ID = "C18"
    LEVEL = "exploration"
    TECHNIQUE = "deterministic simulation of seeded histories with recording pass-through handlers at the runtime seam (each request type alone and all together) and a sys.setprofile ground truth over the reflected implementations; lock-step reference world without handlers; substitution twins"
    LEVEL_TEXT = (
        "Seeded search over (program, history, per-op interception mode). Monitor: with pass-through handlers for the nine request "
        "types installed, a profile hook that knows the code objects of every implementation of evaluate / validate / keys / explain "
        "found by reflection over labrea.* (the saved __labrea_*__ functions, or a raw method a class kept unwrapped) and of the cache "
        "backends flags any implementation entered without an in-flight request for the same object, any backend call without a cache "
        "request, any log record without a LogRequest, and any Option evaluated without a TypeValidationRequest. Completeness (operations that were "
        "skipped rather than run unrequested): a marker constant seen by a stub function must have been seen by the EvaluateRequest handler as "
        "its Value node, and an option namespace whose evaluation completed must have issued a request per declared member. Unchanged results: a "
        "reference world runs the same history without handlers in lock-step; outcomes and body logs must be equal. Substitution: a "
        "handler returns a sentinel for one dataset D; every consumer must equal a cold twin in which D is Value(sentinel), also right "
        "after an un-substituted evaluation with the very same options object. Sampling, not proof."
    )
    LEVEL_NOTE = "Substitution ops run on programs whose datasets are all nocache (a cache legitimately returns what it stored before the handler existed) and only where the un-substituted evaluation succeeds. Reflection provides the coverage denominator (types reached / types found)."
    DESIGN_REF = "3 C18"
    RULE = (
        "case = program spec + history of ops with mode in {plain, pass-through(all | one request type), substitute(D)}; distinct = "
        "hash of (spec, ops); non-trivial = histories with at least one pass-through op and one substitution op that reached the "
        "substituted dataset"
    )
    ASSUMPTIONS = ["handlers are installed with labrea.runtime.handle (public API)", "type-consistent dictionaries"]
    STUBS = HistoryProperty.STUBS + ["recording pass-through handlers for the nine request types", "logging sink"]
    QUICK = {"runs": 8000, "wall": 40}
    THOROUGH = {"runs": 200000, "wall": 480}
    NONTRIVIAL_MEASURE = "history_passthrough_and_substitution"

    def gen_case(self, rng, tier):
        subst = rng.random() < 0.5
        cfg = gen.swarm_cfg(rng, off=("shape_change",) + (("cached", "derive") if subst else ()), on=("dsclass", "fapp", "namespace"))
        cfg["wrapping_datasets"] = rng.random() < 0.5  # dataset(<expression or dataset>, ...): the wrapped object stays a node of the graph
        cfg["namespace_keys"] = True
        cfg["lib_steps"] = rng.choice([False, False, "all"])  # pipeline steps taken from labrea.functions (the library's own helpers)
        spec = gen.gen_spec(rng, cfg)
        inner = [n["id"] for n in spec["nodes"] if n["k"] in ("switch", "case", "coalesce", "bind", "map", "template", "apply", "dsclass", "fapp", "namespace")]
        spec["roots"] = list(dict.fromkeys(spec["roots"] + rng.sample(inner, min(len(inner), rng.randint(0, 2)))))
        rec = None
        if rng.random() < 0.2:
            # a recursive graph (see build._b_recur): the dataset re-enters itself with a smaller RN
            rec = f"r{len(spec['nodes'])}"
            spec["nodes"].append({"k": "recur", "name": "REC", "key": "RN", "cache": "nocache" if (subst or rng.random() < 0.5) else "default", "id": rec})
            spec["roots"] = spec["roots"] + [rec]
        spec = gen.prune(spec)
        if subst:
            for n in spec["nodes"]:
                if n["k"] == "dataset":
                    n["cache"] = "nocache"
        ops = gen_history(rng, cfg, spec, ops_kinds=("evaluate", "evaluate", "evaluate", "call", "validate", "keys", "explain"))
        if rec is not None:
            for op in ops:
                if op["node"] == rec or rng.random() < 0.3:
                    op["node"] = rec
                    op["o"] = dict(op["o"], RN=rng.choice([0, 1, 2, 3]))
        targets = [n["id"] for n in spec["nodes"] if n["k"] == "dataset" and n["id"] not in spec["roots"]]
        # dataset classes (as members of other dataset classes, arguments, branches) are evaluated through requests too
        bases = {n.get("base") for n in spec["nodes"] if n["k"] == "dsclass"}
        targets += [n["id"] for n in spec["nodes"] if n["k"] == "dsclass" and n["id"] not in spec["roots"] and n["id"] not in bases]
        for op in ops:
            if rng.random() < 0.15:
                op["o"] = dict(op["o"], LABREA={"CACHE": {rng.choice(["DISABLED", "DISABLE"]): True}})
            x = rng.random()
            if x < 0.3:
                op["mode"] = "plain"
            elif x < 0.65 or not (subst and targets):
                op["mode"] = "pass"
                op["only"] = None if rng.random() < 0.5 else [rng.choice(list(CORE) + list(OTHER))]
                # labrea's own derived runtimes entered INSIDE the handler block must still carry the handlers
                op["inner_ctx"] = rng.choice([None, None, "cache", "logging", "both"])
                op["effect_fault"] = rng.random() < 0.15
            else:
                op["mode"] = "subst"
                op["target"] = rng.choice(targets)
                op["subst_in_disabled"] = rng.random() < 0.3
                op["op"] = "evaluate"
        return {"cfg": cfg, "spec": spec, "ops": ops, "subst": subst}

    def spec_valid(self, spec):
        return gen.spec_ok(spec)

    def run_case(self, case):
        res = Result()
        spec = case["spec"]
        mon = Monitor(res)
        mon.active = False
        sink = _Sink(mon)
        # ("labrea": whatever a module of the library writes to a stdlib logger of its own ends up here by propagation)
        loggers = [logging.getLogger(PROG_MODULE), logging.getLogger("labrea.dataset"), logging.getLogger("labrea")]
        old = [(lg.level, lg.propagate, list(lg.handlers)) for lg in loggers]
        for lg in loggers:
            lg.setLevel(logging.DEBUG)
            lg.propagate = False
            lg.handlers = [sink]
        try:
            with global_state_guard():
                w = World(spec)
                ref = World(spec)
                pool = {}  # the caller re-uses one options object for equal dictionaries (as users do)
                did_pass = did_subst = False
                for i, op in enumerate(case["ops"]):
                    # an effect callback that raises (both worlds alike): whatever labrea has to say about it is said through a
                    # LogRequest, like everything else
                    w.armed_kinds = ref.armed_kinds = ({"effect": "ValueError"} if op.get("effect_fault") and op.get("mode") == "pass" else {})
                    res.bump("ops")
                    key = U.crepr_json(op["o"])
                    o = pool.setdefault(key, copy.deepcopy(op["o"]))
                    mode = op.get("mode", "plain")
                    if mode == "subst":
                        out = self._substitute(res, case, w, op, o, i)
                        if out is None:
                            continue
                        if res.violations:
                            break
                        did_subst = True
                        continue
                    b0, r0 = len(w.log.events), len(ref.log.events)
                    # an effect callback that raises (both worlds alike): whatever labrea has to say about it is said
                    # through a LogRequest, like everything else
                    inner = {"cache": [labrea.cache.disabled], "logging": [labrea.logging.disabled], "both": [labrea.logging.disabled, labrea.cache.disabled]}.get(op.get("inner_ctx"), [])
                    with contextlib.ExitStack() as st:
                        for c in inner:
                            st.enter_context(c())
                        rout = self._do(ref, op, copy.deepcopy(op["o"]))
                    if mode == "pass":
                        did_pass = True
                        mon.violation = None
                        mon.cached_entered, mon.cache_lookups, mon.values_seen = [], set(), set()
                        mon.option_keys, mon.evaluated_ok = set(), set()
                        mon.active = True
                        with lrt.handle(mon.handlers(op.get("only"))):
                            if op.get("only") is None:
                                sys.setprofile(mon.profile)
                            try:
                                with contextlib.ExitStack() as st:
                                    for c in inner:
                                        st.enter_context(c())
                                    out = self._do(w, op, o)
                            finally:
                                sys.setprofile(None)
                        mon.active = False
                        res.bump("passthrough_ops")
                        if op.get("only") is None and not mon.violation and not inner:
                            # every evaluation of a Cached node looks its cache up THROUGH a request (whatever the
                            # switches in the options say: honouring them is the handlers' business)
                            for c in mon.cached_entered:
                                if (id(c.evaluatable), id(c.cache)) not in mon.cache_lookups:
                                    mon.violation = ("cached-evaluated-without-cache-request", {"cached": repr(c)[:120]})
                                    break
                        if not mon.violation and (op.get("only") is None or "evaluate" in op["only"]):
                            # data flow as ground truth: a marker constant that reached a user function came out of its Value
                            # node, and that evaluation is an operation the handler must have observed
                            for ev in w.log.events[b0:]:
                                if ev[0] == "call" and ev[2] == "fapp":
                                    lost = [m for m in _markers(ev[5]) if m not in mon.values_seen]
                                    if lost:
                                        res.violate("value-reached-function-without-evaluate-request", op_index=i, node=op["node"], o=op["o"], function=ev[3], constants=lost)
                                        break
                            for nsn in [n for n in spec["nodes"] if n["k"] == "namespace"] if not res.violations else []:
                                # an option namespace evaluated as a whole evaluates each declared member: operations like any other
                                if id(w.prog.obj[nsn["id"]]) in mon.evaluated_ok:
                                    lost = [k for k in gen.namespace_keys(nsn) if k not in mon.option_keys]
                                    if lost:
                                        res.violate("namespace-member-evaluated-without-request", op_index=i, node=op["node"], o=op["o"], namespace=nsn["id"], members=lost)
                                        break
                                    res.bump("namespaces_checked_member_by_member")
                            if res.violations:
                                break
                        if mon.violation and op.get("only") is None:
                            res.violate(mon.violation[0], op_index=i, node=op["node"], o=op["o"], op_kind=op["op"], **mon.violation[1])
                            break
                    else:
                        out = self._do(w, op, o)
                    if not out.same(rout):
                        res.violate("handlers-changed-result", op_index=i, node=op["node"], o=op["o"], op_kind=op["op"], mode=mode, only=op.get("only"),
                                    with_handlers=out.brief(), without=rout.brief())
                        break
                    calls = [ev[2:4] for ev in w.log.events[b0:] if ev[0] == "call"]
                    rcalls = [ev[2:4] for ev in ref.log.events[r0:] if ev[0] == "call"]
                    if calls != rcalls:
                        res.violate("handlers-changed-body-log", op_index=i, node=op["node"], o=op["o"], mode=mode, only=op.get("only"), with_handlers=calls[:8], without=rcalls[:8])
                        break
                for k, v in mon.seen.items():
                    res.bump("requests_seen:" + k, v)
                res.stats["events"] = w.log.seq
                res.digest = w.log.digest()
                for e in mon.entered:
                    res.seen("implementation_reached", e)
                res.seen("history", (spec, case["ops"]))
                if did_pass and did_subst:
                    res.seen("history_passthrough_and_substitution", (spec, case["ops"]))
                res.sample = self.sample_of(case)
        finally:
            for lg, (lvl, prop, hs) in zip(loggers, old):
                lg.setLevel(lvl)
                lg.propagate = prop
                lg.handlers = hs
        return res

    @staticmethod
    def _do(world, op, o):
        """Like World.do but with a caller-owned dictionary object (identity preserved across ops)."""
        world.op_index += 1
        world.calls_in_op = {}
        with world.active():
            return world._eval_op(op["op"], op, o_obj=o)

    def _substitute(self, res, case, w, op, o, i):
        spec = case["spec"]
        tid = op["target"]
        # only where the un-substituted graph can be evaluated (coalesce picks members by validate())
        # ... and where the target itself is really used: every evaluate / validate request for it succeeds, at least one
        pw = World(spec, record=False)
        pobj = pw.prog.obj[tid]
        seen = {"ok": 0, "bad": 0}

        def watch(default):
            def hh(request):
                mine = getattr(request, "evaluatable", getattr(request, "validatable", None)) is pobj
                try:
                    out = default(request)
                except Exception:
                    if mine:
                        seen["bad"] += 1
                    raise
                if mine and isinstance(request, ltypes.EvaluateRequest):
                    seen["ok"] += 1
                return out

            return hh

        with lrt.handle({ltypes.EvaluateRequest: watch(ltypes._evaluate_request), ltypes.ValidateRequest: watch(ltypes._validate_request)}):
            plain = pw.do({"op": "evaluate", "node": op["node"], "o": op["o"]})
        if not plain.ok or seen["bad"] or not seen["ok"]:
            res.bump("substitution_skipped_target_not_cleanly_used")
            return None
        target_obj = w.prog.obj[tid]
        reached = [0]

        def h(request):
            if request.evaluatable is target_obj:
                reached[0] += 1
                return SENTINEL
            return ltypes._evaluate_request(request)

        with lrt.handle(ltypes.EvaluateRequest, h):
            with (labrea.cache.disabled() if op.get("subst_in_disabled") else contextlib.nullcontext()):
                out = self._do(w, {"op": "evaluate", "node": op["node"], "o": op["o"]}, o)
        tspec = copy.deepcopy(spec)
        for k, n in enumerate(tspec["nodes"]):
            if n["id"] == tid:
                tspec["nodes"][k] = {"k": "val", "v": SENTINEL, "id": tid}
        want = World(tspec, record=False).do({"op": "evaluate", "node": op["node"], "o": op["o"]})
        res.bump("substitution_ops")
        if reached[0]:
            res.bump("substitutions_reaching_target")
        if not out.same(want):
            res.violate("substituted-result-not-honoured", op_index=i, node=op["node"], o=op["o"], target=tid, got=out.brief(), twin_with_value=want.brief(),
                        handler_calls=reached[0])
        return out if reached[0] else None

    def signature(self, case, violation):
        if gen.scalar_at_section_prefix(case["spec"], [op["o"] for op in case["ops"] if "o" in op]):
            return "scalar-at-section-prefix"
        return None

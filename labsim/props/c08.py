"""C08 — pre-set options override, defaults yield, sections merge; inputs are never mutated."""
import copy

from .. import gen
from .. import universe as U
from ..core import Result
from ..histsim import HistoryProperty, family_root, gen_history, late_registrations
from ..world import World, global_state_guard


def wrapper_equivalent(spec, nid, o):
    """(spec', node id', o') such that node(o) must equal node'(o') by the C08 equations, or None."""
    n = gen.node_by_id(spec, nid)
    k = n["k"]
    if k == "withopts":
        o2 = U.overlay(o, n["options"]) if n.get("force", True) else U.overlay(n["options"], o)
        return spec, n["inner"], o2
    if k == "derive":
        o2 = U.overlay(o, n["options"]) if n["how"] == "with_options" else U.overlay(n["options"], o)
        return spec, n["base"], o2
    if k == "dataset" and (n.get("options") or n.get("default_options")):
        stripped = copy.deepcopy(spec)
        m = gen.node_by_id(stripped, nid)
        o2 = U.overlay(m.pop("default_options", None) or {}, o)
        o2 = U.overlay(o2, m.pop("options", None) or {})
        return stripped, nid, o2
    return None


class C08(HistoryProperty):
    ID = "C08"
    LEVEL = "exploration"
    TECHNIQUE = "deterministic simulation of seeded histories over wrapped / derived datasets sharing warm caches; differential oracle: wrapped node under o vs. cold twin of the unwrapped node under an independently overlaid dictionary; deep-snapshot monitors on every dictionary handed to labrea"
    LEVEL_TEXT = (
        "Seeded search over programs with WithOptions/WithDefaultOptions wrappers, dataset(options=, default_options=) and "
        "with_options/with_default_options derivations (stacked, sharing caches with their parents, with callbacks, effects, dispatch) "
        "and histories of evaluate/validate/keys/explain on one long-lived instance with P, D and o overlapping inside one section. "
        "Oracle: X'(o) on the warm world == X(o overlaid by P) resp. X(D overlaid by o) on a cold twin, overlay implemented "
        "independently of confectioner.mix; monitor: caller dictionaries and pre-set dictionaries are deep-equal to their "
        "snapshots after every op. Sampling, not proof."
    )
    LEVEL_NOTE = "Derivations are generated with pre-sets disjoint from leaves their base already forces (the statement does not settle which wins there, DESIGN 2.10 item 15). Trusted: labsim.universe.overlay (12 lines)."
    DESIGN_REF = "3 C08"
    RULE = (
        "case = program spec rich in wrappers/derivations + history over wrapper nodes, their inner nodes and roots; distinct = hash "
        "of (spec, ops); non-trivial = histories in which a wrapper equation was checked with a dictionary that overlaps the pre-set "
        "dictionary inside a section or at a leaf"
    )
    ASSUMPTIONS = ["type-consistent CALLER dictionaries (no plain value at a section prefix the program reads through); pre-set dictionaries may hold a plain value where a neighbouring layer holds a section", "pre-sets of a derivation disjoint from leaves forced by its base"]
    QUICK = {"runs": 18000, "wall": 40}
    THOROUGH = {"runs": 300000, "wall": 480}
    NONTRIVIAL_MEASURE = "history_with_overlap"

    def gen_case(self, rng, tier):
        cfg = gen.swarm_cfg(rng, off=("shape_change",), on=("presets", "default_presets", "dataset", "derive", "withopts", "map", "dsclass", "fapp"), base={"deep_default_section": rng.random() < 0.4})
        cfg["partial_section_preset"] = rng.random() < 0.8
        cfg["wrapping_datasets"] = rng.random() < 0.5  # dataset(<expression>, options=..., default_options=...)
        cfg["mutating_bodies"] = rng.random() < 0.4  # bodies that work in place on a section / list taken from the options
        if cfg["mutating_bodies"]:
            cfg["whole_section"] = cfg["lists"] = True
        spec = gen.gen_spec(rng, cfg)
        gadget_roots = []
        if rng.random() < 0.25:
            # nesting gadget: two directly stacked wrappers of the same kind whose dictionaries meet inside section S, the
            # OUTER one holding a plain value where the inner one (and usually the caller) holds a section.  Layer-by-layer
            # overlay is not associative there: a plain value replaces the section under it, a section replaces a plain value.
            k = len(spec["nodes"])
            force = rng.random() < 0.5
            plain = rng.choice([None, "n/a", 0, False])
            inner_p = {"S": {rng.choice(["X", "Y"]): rng.choice([5, "in"])}}
            spec["nodes"] += [
                {"k": "opt", "key": "S.X", "default": {"t": "const", "v": "dx"}, "id": f"w{k}"},
                {"k": "opt", "key": "S.Y", "default": {"t": "const", "v": "dy"}, "id": f"w{k + 1}"},
                {"k": "opt", "key": "S.Z", "default": {"t": "const", "v": "dz"}, "id": f"w{k + 2}"},
                {"k": "dataset", "name": "NESTX", "args": {"a": f"w{k}", "b": f"w{k + 1}", "c": f"w{k + 2}"}, "cache": rng.choice(["nocache", "default"]), "id": f"w{k + 3}"},
                {"k": "withopts", "inner": f"w{k + 3}", "options": inner_p, "force": force, "id": f"w{k + 4}"},
                {"k": "withopts", "inner": f"w{k + 4}", "options": {"S": plain}, "force": force, "id": f"w{k + 5}"},
            ]
            gadget_roots = [f"w{k + 5}", f"w{k + 4}"]
            if rng.random() < 0.5:
                # a third layer of the same kind on top, a section again
                spec["nodes"].append({"k": "withopts", "inner": f"w{k + 5}", "options": {"S": {"Z": "top"}}, "force": force, "id": f"w{k + 6}"})
                gadget_roots.insert(0, f"w{k + 6}")
        wrappers = [n["id"] for n in spec["nodes"] if wrapper_equivalent(spec, n["id"], {}) is not None]
        maps = [n["id"] for n in spec["nodes"] if n["k"] == "map"]
        spec["roots"] = spec["roots"] + rng.sample(maps, min(len(maps), 2))
        extra = rng.sample(wrappers, min(len(wrappers), 3))
        spec["roots"] = list(dict.fromkeys(spec["roots"] + extra + gadget_roots))
        # the unwrapped counterparts are evaluated too, on the same warm world (shared caches)
        for w in extra:
            _, inner, _ = wrapper_equivalent(spec, w, {})
            if inner not in spec["roots"] and rng.random() < 0.7:
                spec["roots"].append(inner)
        spec = gen.prune(spec)
        ops = gen_history(rng, cfg, spec, ops_kinds=("evaluate", "evaluate", "evaluate", "call", "validate", "keys", "explain"))
        if cfg["dispatch"] and rng.random() < 0.5:
            # overloads registered in the middle of the history, on a dataset or THROUGH one derived from it: the equations
            # X'(o) = X(o overlaid by P) relate the two at every moment, so a registration made on either is one on both
            late_registrations(rng, spec, ops)
        return {"cfg": cfg, "spec": spec, "ops": ops}

    @staticmethod
    def _on_family_root(spec, sop):
        """The same registration, made on the dataset the derivation chain starts from (twin side of the equations)."""
        if sop["op"] == "register" and any(n["id"] == sop["ds"] and n["k"] == "derive" for n in spec["nodes"]):
            return dict(sop, ds=family_root(spec, sop["ds"]))
        return sop

    def run_case(self, case):
        res = Result()
        spec = case["spec"]
        with global_state_guard():
            w = World(spec)
            overlap = False
            for i, op in enumerate(case["ops"]):
                if op["op"] == "register":
                    if op["ds"] in w.prog.obj and all(a in w.prog.obj for a in op["impl"].get("args", {}).values()):
                        w.do(op)
                        res.bump("late_registrations")
                    continue
                out = w.do(op)
                res.bump("ops")
                if w.mutations:
                    res.violate("input-mutated", op_index=i, node=op["node"], o=op["o"], what=[list(m) for m in w.mutations[:3]], op_kind=op["op"])
                    break
                if op["op"] not in ("evaluate", "call"):
                    continue
                n0 = gen.node_by_id(spec, op["node"])
                if n0["k"] == "map":
                    # Map: one (assignment, result) pair per element of the product, each evaluated with that assignment
                    # overriding the caller's options (an independent overlay again)
                    bad = self._check_map(res, w, spec, n0, op, out)
                    if bad:
                        res.violate("map-element-not-evaluated-under-its-assignment", op_index=i, node=op["node"], o=op["o"], **bad)
                        break
                    continue
                eq = wrapper_equivalent(spec, op["node"], op["o"])
                if eq is None:
                    cold = w.twin(record=False).do(op)
                    if not out.same(cold):
                        res.violate("warm-differs-from-cold", op_index=i, node=op["node"], o=op["o"], warm=out.brief(), cold=cold.brief())
                        break
                    continue
                spec2, nid2, o2 = eq
                n = gen.node_by_id(spec, op["node"])
                preset_paths = set(U.all_paths(n.get("options") or {})) | set(U.all_paths(n.get("default_options") or {}))
                if preset_paths & set(U.all_paths(op["o"])):
                    overlap = True
                    res.bump("equations_with_overlap")
                res.bump("wrapper_equations_checked")
                t = World(spec2, record=False)
                for sop in w.structural:
                    t.do(self._on_family_root(spec2, sop))
                want = t.do({"op": "evaluate", "node": nid2, "o": o2})
                if t.mutations:
                    res.violate("input-mutated", op_index=i, node=nid2, o=o2, what=[list(m) for m in t.mutations[:3]], op_kind="evaluate(cold)")
                    break
                if not out.same(want):
                    res.violate("wrapper-equation-broken", op_index=i, node=op["node"], kind_of_wrapper=n["k"] + ":" + str(n.get("how", n.get("force", ""))),
                                o=op["o"], overlaid=o2, wrapped=out.brief(), unwrapped_on_overlaid=want.brief())
                    break
                # the stateful half: the unwrapped node on the SAME warm world under the overlaid dictionary
                if spec2 is spec:
                    warm_inner = w.do({"op": "evaluate", "node": nid2, "o": o2})
                    if not warm_inner.same(want):
                        res.violate("parent-contaminated-by-derivative", op_index=i, node=nid2, o=o2, warm=warm_inner.brief(), cold=want.brief(), after=op["node"])
                        break
            if any(n["id"].startswith("w") and n["k"] == "withopts" for n in spec["nodes"]):
                res.bump("histories_with_nesting_gadget")
            if any(n.get("mutates") for n in spec["nodes"]):
                res.bump("histories_with_in_place_bodies")
            res.stats["events"] = w.log.seq
            res.digest = w.log.digest()
            res.seen("history", (spec, case["ops"]))
            if overlap:
                res.seen("history_with_overlap", (spec, case["ops"]))
            res.sample = self.sample_of(case)
        return res

    @staticmethod
    def _check_map(res, w, spec, n, op, out):
        import itertools

        from ..rt import crepr, freeze

        t = World(spec, record=False)
        for sop in w.structural:
            t.do(sop)
        lists = []
        for key, it in n["iterables"].items():
            ok, v = t.raw(it, op["o"])
            if not ok:
                return None  # the iterables cannot be evaluated: nothing to compare
            try:
                lists.append([(key, x) for x in v])
            except TypeError:
                return None
        want = []
        for combo in itertools.product(*lists):
            o2 = copy.deepcopy(op["o"])
            for key, x in combo:
                top = {}
                U.set_path(top, key, x)
                o2 = U.overlay(o2, top)
            ok, v = World(spec, record=False).raw(n["target"], o2) if not w.structural else t.raw(n["target"], o2)
            if not ok:
                return None
            want.append(freeze(v) if n.get("values") else (freeze(dict(combo)), freeze(v)))
        res.bump("map_equations_checked")
        if not out.ok:
            return {"got": out.brief(), "expected": crepr(tuple(want))[:300]}
        if out.value != crepr(tuple(want)):
            return {"got": out.value[:300], "expected": crepr(tuple(want))[:300]}
        return None

    def signature(self, case, violation):
        if gen.scalar_at_section_prefix(case["spec"], [op["o"] for op in case["ops"] if "o" in op]):
            return "scalar-at-section-prefix"
        return None

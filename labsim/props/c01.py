"""C01 — caching is transparent: warm long-lived world vs. cold rebuilt twin, op by op."""
import random

from .. import gen
from .. import universe as U
from ..core import Result
from ..histsim import HistoryProperty, gen_history
from ..world import World, global_state_guard


def coalesce_value_fail_nodes(spec):
    """Coalesce nodes with a non-last member that may fail because of a *value* (open finding KF-C01-coalesce)."""
    g = gen.SpecGen(random.Random(0), {})
    g.nodes = spec["nodes"]
    out = []
    for n in spec["nodes"]:
        if n["k"] == "coalesce" and any(g._can_fail_by_value(m) for m in n["members"][:-1]):
            out.append(n["id"])
    return out


class C01(HistoryProperty):
    ID = "C01"
    LEVEL = "exploration"
    TECHNIQUE = "deterministic simulation of seeded evaluation histories on one long-lived program instance, differential oracle against a cold rebuilt twin per operation; ddmin replay files"
    LEVEL_TEXT = (
        "Seeded search over (program, history of near-pair dictionaries); every evaluation on the warm instance is compared "
        "with a freshly built twin with empty caches and with the same call under cache.disabled(). Sampling, not proof: the "
        "right level because a stale hit needs a composition x dictionary pair x order, which only a history search reaches."
    )
    LEVEL_NOTE = "Trusted: the twin builder (same spec -> same program), stub bodies are pure; bounds: <=17 nodes, <=24 ops per history, key universe A B C S.{X,Y,Z,T.U} L M M2."
    DESIGN_REF = "3 C01, 2.2-2.6"
    RULE = (
        "case = seeded program spec (DAG of datasets/combinators, swarm-selected features) + history of evaluate ops "
        "with near-pair dictionaries on ONE long-lived instance; oracle per op: outcome (value or failure) equals that of a "
        "freshly built twin with empty caches, and equals the same call inside labrea.cache.disabled(); distinct = hash of "
        "(spec, op dictionaries); non-trivial = histories in which at least one evaluation was served from a cache"
    )
    ASSUMPTIONS = [
        "stub bodies are deterministic pure functions of their arguments",
        "dictionaries are JSON, template reference graph acyclic, no @env references",
        "registrations / effect changes happen before the first evaluation (C07 owns the interleavings)",
    ]
    QUICK = {"runs": 8000, "wall": 45}
    THOROUGH = {"runs": 400000, "wall": 540}
    NONTRIVIAL_MEASURE = "history_with_hit"

    def gen_case(self, rng, tier):
        cfg = gen.swarm_cfg(rng, on=("dsclass", "namespace", "fapp"))
        cfg["odd_constants"] = rng.random() < 0.4
        cfg["tuple_constants"] = rng.random() < 0.4
        cfg["env_refs"] = rng.random() < 0.4  # Template texts referring to the process environment
        cfg["posonly_params"] = rng.random() < 0.4  # dataset functions with positional-only parameters
        cfg["preset_plain_section"] = rng.random() < 0.4  # pre-set / default options holding a plain value where callers have a section
        cfg["namespace_keys"] = True
        cfg["deep_default_section"] = rng.random() < 0.3  # a default SECTION three levels down where callers put a plain value
        cfg["user_evaluatables"] = rng.random() < 0.4  # user-defined Evaluatable subclasses in the place of plain Options
        cfg["labrea_keys"] = rng.random() < 0.4  # dictionaries that carry the reserved LABREA section (logging / effects switches)
        if cfg["labrea_keys"]:
            cfg["alloptions"] = True
        cfg["partial_bodies"] = rng.random() < 0.4  # bodies that raise for one value of one argument (still pure functions)
        cfg["odd_returns"] = rng.random() < 0.3  # bodies returning a container that holds something uncopyable
        cfg["mutating_bodies"] = rng.random() < 0.3  # bodies that work in place on a section / list taken from the options
        if cfg["mutating_bodies"]:
            cfg["whole_section"] = cfg["lists"] = True
        spec = gen.prune(gen.gen_spec(rng, cfg))
        if rng.random() < 0.25:
            # several datasets defined through ONE configured factory (memo = dataset(cache=MemoryCache); @memo def ...)
            for n in spec["nodes"]:
                if n["k"] == "dataset" and n.get("cache", "default") == "default":
                    n["cache"] = "shared_factory"
        routed = None
        if rng.random() < 0.12:
            # routed-selector gadget: a default-less switch under DEFAULT options that route its selector's key to another key
            # the caller can set ('M': '{B}', 'B': <a value of the lookup>), as a coalesce member below a caching dataset.  Whether
            # the member or the fall-back is taken is decided by B, which only the overlaid dictionary connects to the selector.
            k0 = len(spec["nodes"])
            good = rng.choice(["a", "b", 1])
            spec["nodes"] += [
                {"k": "opt", "key": "M", "id": f"z{k0}"},
                {"k": "val", "v": "fast", "id": f"z{k0 + 1}"},
                {"k": "switch", "dispatch": {"n": f"z{k0}"}, "lookup": [[good, f"z{k0 + 1}"]], "default": None, "id": f"z{k0 + 2}"},
                {"k": "withopts", "inner": f"z{k0 + 2}", "options": {"M": "{B}", "B": good}, "force": rng.random() < 0.3, "id": f"z{k0 + 3}"},
                {"k": "val", "v": "fallback", "id": f"z{k0 + 4}"},
                {"k": "coalesce", "members": [f"z{k0 + 3}", f"z{k0 + 4}"], "id": f"z{k0 + 5}"},
                {"k": "dataset", "name": "ROUTED", "args": {"a": f"z{k0 + 5}"}, "id": f"z{k0 + 6}"},
            ]
            spec["roots"] = spec["roots"] + [f"z{k0 + 6}"]
            routed = (f"z{k0 + 6}", good)
        dg = U.DictGen(rng, cfg)
        # (reference chains through a CONTAINER - key -> '{L}' -> ['x{C}', ...] -> C - a little more often than elsewhere)
        dg.MUTATIONS = list(dg.MUTATIONS) + ["listref", "listref", "change"]
        ops = gen_history(rng, cfg, spec, dictgen=dg)
        if routed:
            other = rng.choice([x for x in ["a", "b", 1, 2, "zzz"] if x != routed[1]])
            base = {k: v for k, v in rng.choice(ops)["o"].items() if k not in ("B", "M")} if ops and rng.random() < 0.5 else {}
            trio = [dict(base), dict(base, B=other), dict(base, B=routed[1]), dict(base)]
            rng.shuffle(trio)
            at = rng.randrange(len(ops) + 1)
            ops[at:at] = [{"op": "evaluate", "node": routed[0], "o": o, "mut": "routed-selector"} for o in trio]
        if cfg["mutating_bodies"]:
            # ... followed by the dictionary that LOOKS like what such a body leaves behind (had the body been handed the
            # caller's own list / section, the first result would be filed under this one's fingerprint)
            import copy as _copy

            for k in range(len(ops) - 1, -1, -1):
                if rng.random() < 0.3:
                    o2 = _copy.deepcopy(ops[k]["o"])
                    for key in ("L", "S"):
                        if isinstance(o2.get(key), list):
                            o2[key] = o2[key] + ["§mutated"]
                        elif isinstance(o2.get(key), dict):
                            o2[key]["§mutated"] = 1
                            if isinstance(o2[key].get("T"), dict):
                                o2[key]["T"]["§mutated"] = 1
                    ops.insert(k + 1, dict(ops[k], o=o2, mut="as-left-by-an-in-place-body"))
        # derivations made from WARM datasets in the middle of the history (they share the parent's cache)
        bases = [n for n in spec["nodes"] if n["k"] == "dataset"]
        if bases and cfg["presets"] and rng.random() < 0.4:
            g = gen.SpecGen(rng, cfg)
            for j in range(rng.randint(1, 2)):
                base = rng.choice(bases)
                how = rng.choice(["with_options", "with_default_options"]) if cfg["default_presets"] else "with_options"
                forced = set(U.leaf_paths(base.get("options") or {}))
                node = {"k": "derive", "base": base["id"], "how": how, "options": g.preset(avoid=forced if how == "with_options" else ()), "id": f"late{j}"}
                at = rng.randrange(1, len(ops) + 1)
                ops.insert(at, {"op": "derive", "node_def": node})
                dg = U.DictGen(rng, cfg, no_list_keys=gen.hashable_required_keys(spec))
                o = ops[at - 1].get("o", {})
                for k in range(at + 1, len(ops) + 1):
                    if rng.random() < 0.4:
                        o, m = dg.mutate(o)
                        ops.insert(k, {"op": "evaluate", "node": node["id"], "o": o, "mut": m})
        if bases and ops and rng.random() < 0.15:
            # the cache of a WARM dataset is replaced in the middle of the history (Dataset.set_cache)
            at = rng.randrange(1, len(ops) + 1)
            ops.insert(at, {"op": "set_cache", "ds": rng.choice(bases)["id"], "cache": rng.choice(["memory", "nocache", "recording"]), "factory": rng.random() < 0.3})
        return {"cfg": cfg, "spec": spec, "ops": ops}

    def run_case(self, case):
        res = Result()
        with global_state_guard():
            w = World(case["spec"])
            hit_any = False
            fell_through = False
            for i, op in enumerate(case["ops"]):
                if op["op"] == "derive":
                    if op["node_def"]["base"] in w.prog.obj:
                        w.do(op)
                        res.bump("late_derivations")
                    continue
                if op["op"] == "set_cache":
                    w.do(op)
                    res.bump("late_set_cache")
                    continue
                if op["node"] not in w.prog.obj:
                    continue  # (a shrunk history may have lost the derivation this op refers to)
                before = w.count("body")
                raised_before = w.count("raise")
                out = w.do(op)
                ran = w.count("body") - before
                if out.ok and w.count("raise") > raised_before:
                    # a partial body raised and the evaluation still produced a value: some fall-back took over
                    fell_through = True
                    res.bump("ops_succeeding_after_a_body_raised")
                t = w.twin(record=False)
                ref = t.do(op)
                cold_ran = t.count("body")
                res.bump("ops")
                if ran < cold_ran:
                    hit_any = True
                    res.bump("ops_with_cache_hit")
                if not out.ok:
                    res.bump("ops_failed")
                if not out.same(ref):
                    res.violate(
                        "stale-or-divergent", op_index=i, node=op["node"], o=op["o"], warm=out.brief(), cold=ref.brief(),
                        bodies_run_warm=ran, bodies_run_cold=cold_ran, after_a_fall_back_from_a_failed_body=fell_through,
                    )
                    break
                # second opinion on the warm world itself: caching switched off for this dictionary
                import labrea.cache

                w.op_index -= 1
                with labrea.cache.disabled():
                    off = w.do(dict(op))
                if not off.same(out):
                    # the statement's own yardstick: the same graph with caching switched off for this dictionary
                    res.violate("differs-from-caching-switched-off", op_index=i, node=op["node"], o=op["o"], cached=out.brief(), switched_off=off.brief(),
                                cold_twin=ref.brief(), after_a_fall_back_from_a_failed_body=fell_through)
                    break
                if w.mutations:
                    res.bump("input_mutations", len(w.mutations))
            res.stats["events"] = w.log.seq
            res.digest = w.log.digest()
            res.seen("history", (case["spec"], [op.get("o") for op in case["ops"]]))
            if hit_any:
                res.seen("history_with_hit", (case["spec"], [op.get("o") for op in case["ops"]]))
            res.seen("opkinds", [op.get("mut") for op in case["ops"]])
            res.sample = self.sample_of(case)
        return res

    def signature(self, case, violation):
        d = violation.get("detail", {})
        if any(n["k"] == "coalesce" for n in case["spec"]["nodes"]) and self._coalesce_fell_through(case, d.get("op_index", len(case["ops"]))):
            # open finding: coalesce falls back when the member it chose FAILS at evaluate(), keys() names the chosen member only
            return "fall-back-after-evaluate-failure-not-keyed"
        return None

    @staticmethod
    def _coalesce_fell_through(case, upto):
        """Did, in the history up to op `upto`, a coalesce member pass validate() and then fail in evaluate() (a partial body,
        a default outside an option-valued domain, ...) while a later member answered?  Re-runs the history on a fresh world
        with recording pass-through handlers; only used to classify a violation that was already found."""
        import labrea.runtime as lrt
        import labrea.types as lt

        with global_state_guard():
            w = World(case["spec"], record=False)
            members = {}
            for nid, n in w.prog.node.items():
                if n["k"] == "coalesce":
                    for m in n["members"][:-1]:
                        members[id(w.prog.obj[m])] = m
            seen = {}  # member -> set of ("validate"|"evaluate", ok)

            def rec(kind, default):
                def h(request):
                    obj = getattr(request, "evaluatable", getattr(request, "validatable", None))
                    try:
                        out = default(request)
                    except Exception:
                        if id(obj) in members:
                            seen.setdefault(members[id(obj)], set()).add((kind, False))
                        raise
                    if id(obj) in members:
                        seen.setdefault(members[id(obj)], set()).add((kind, True))
                    return out

                return h

            with lrt.handle({lt.ValidateRequest: rec("validate", lt._validate_request), lt.EvaluateRequest: rec("evaluate", lt._evaluate_request)}):
                for i, op in enumerate(case["ops"][: upto + 1]):
                    if op["op"] in ("derive", "set_cache"):
                        try:
                            w.do(op)
                        except Exception:  # noqa: BLE001
                            pass
                        continue
                    if op.get("node") not in w.prog.obj:
                        continue
                    seen.clear()
                    w.do(op)
                    if any(("validate", True) in s and ("evaluate", False) in s for s in seen.values()):
                        return True
        return False

    def known_probes(self):
        # cached(coalesce(D1(a=Option('A')) undefined for a == 'bad', D2(b=Option('B')))): the fall-back's value is filed under {'A'}
        spec = {"nodes": [
            {"k": "opt", "key": "A", "id": "n0"}, {"k": "opt", "key": "B", "id": "n1"},
            {"k": "dataset", "name": "D1", "args": {"a": "n0"}, "cache": "nocache", "fails_if": {"arg": "a", "v": "b"}, "id": "n2"},
            {"k": "dataset", "name": "D2", "args": {"b": "n1"}, "cache": "nocache", "id": "n3"},
            {"k": "coalesce", "members": ["n2", "n3"], "id": "n4"},
            {"k": "cached", "inner": "n4", "id": "n5"}], "roots": ["n5"]}
        ops = [{"op": "evaluate", "node": "n5", "o": {"A": "b", "B": 1}}, {"op": "evaluate", "node": "n5", "o": {"A": "b", "B": 2}}]
        return [("KF-C01-coalesce-fallback-after-evaluate-failure-not-keyed", {"cfg": {}, "spec": spec, "ops": ops})]

"""C03 — keys() is present-only and sufficient; fingerprints depend on nothing else (incl. process / hash seed)."""
import json
import os
import subprocess
import sys
import tempfile

import labrea.runtime as lrt
from labrea.types import KeysRequest, _keys_request

from .. import gen
from .. import universe as U
from ..core import VERIF, Result, isolated
from ..histsim import HistoryProperty, gen_history
from ..world import World, global_state_guard

CHILD_HASHSEEDS = ["1", "4242", "987654321"]


def fingerprint_log(case):
    """Per-op [fingerprint text | failure class] and sorted keys of a history, on a fresh cold world."""
    out = []
    with global_state_guard():
        w = World(case["spec"], record=False)
        for op in case["ops"]:
            f = w.do(dict(op, op="fingerprint"))
            k = w.do(dict(op, op="keys"))
            out.append([f.value if f.ok else "ERR", k.value if k.ok else "ERR"])
    return out


class C03(HistoryProperty):
    ID = "C03"
    LEVEL = "exploration"
    TECHNIQUE = "deterministic simulation of seeded histories with a recording KeysRequest handler (seam invariant), restricted cold twins, near-pair fingerprint relations, and re-execution of the same histories in fresh interpreters under other PYTHONHASHSEEDs"
    LEVEL_TEXT = (
        "Seeded search over (program, history); (i) every KeysRequest observed at the runtime seam - nested ones included - reports "
        "only keys present in that request's options; (ii) whenever keys(o) succeeds, a cold twin evaluated on o restricted to exactly "
        "those paths gives the same outcome and the same keys; (iii) over all pairs of dictionaries of a history: equal key sets with "
        "equal values => equal fingerprint bytes, a differing value under a reported key => different bytes; (iv) the per-op "
        "fingerprint bytes of sampled histories are identical in 3 freshly started interpreters with different PYTHONHASHSEED. "
        "Sampling, not proof; (iv) is the configuration dimension only this family reaches."
    )
    LEVEL_NOTE = "Trusted: independent restrict()/lookup in labsim.universe; the default KeysRequest handler is called by the recording handler (pass-through)."
    DESIGN_REF = "3 C03"
    RULE = (
        "case = program spec + history of near-pair dictionaries; per op keys/fingerprint on the warm world, restricted-twin "
        "evaluation on cold worlds; distinct = hash of (spec, dictionaries); non-trivial = histories where keys() succeeded at least "
        "once with a non-empty key set and the restricted dictionary was strictly smaller than the original"
    )
    ASSUMPTIONS = ["dictionaries are JSON with an acyclic template reference graph", "open finding KF-C03-fallback-keys-not-restriction-stable is reported, not failed"]
    QUICK = {"runs": 5000, "wall": 55}
    THOROUGH = {"runs": 300000, "wall": 480}
    NONTRIVIAL_MEASURE = "history_with_strict_restriction"
    N_XPROC = {"quick": 120, "thorough": 3000}

    def gen_case(self, rng, tier):
        cfg = gen.swarm_cfg(rng, on=("dsclass", "namespace", "fapp"))
        cfg["env_refs"] = rng.random() < 0.4  # Template texts referring to the process environment
        cfg["namespace_keys"] = True
        cfg["user_evaluatables"] = rng.random() < 0.4  # user-defined Evaluatable subclasses in the place of plain Options
        cfg["labrea_keys"] = rng.random() < 0.4  # dictionaries that carry the reserved LABREA section (logging / effects switches)
        if cfg["labrea_keys"]:
            cfg["alloptions"] = True
        spec = gen.gen_spec(rng, cfg)
        if rng.random() < 0.2:
            # a Map over TWO keys whose target reads a caller option only where both take their non-first value: the keys of
            # a Map are the union over the full product of its assignments
            k = len(spec["nodes"])
            key = rng.choice(["A", "B", "S.X"])
            spec["nodes"] += [
                {"k": "opt", "key": key, "id": f"m{k}"}, {"k": "val", "v": "v0", "id": f"m{k + 1}"}, {"k": "val", "v": "v1", "id": f"m{k + 2}"},
                {"k": "switch", "dispatch": "M2", "lookup": [[1, f"m{k + 2}"], [2, f"m{k}"]], "default": f"m{k + 1}", "id": f"m{k + 3}"},
                {"k": "switch", "dispatch": "M", "lookup": [["a", f"m{k + 2}"], ["b", f"m{k + 3}"]], "default": f"m{k + 1}", "id": f"m{k + 4}"},
                {"k": "dataset", "name": "MAPTGT", "args": {"x": f"m{k + 4}"}, "cache": rng.choice(["nocache", "default"]), "id": f"m{k + 5}"},
                {"k": "val", "v": ["a", "b"], "id": f"m{k + 6}"}, {"k": "val", "v": [1, 2], "id": f"m{k + 7}"},
                {"k": "map", "target": f"m{k + 5}", "iterables": {"M": f"m{k + 6}", "M2": f"m{k + 7}"}, "values": rng.random() < 0.5, "id": f"m{k + 8}"},
                {"k": "dataset", "name": "OVERMAP", "args": {"m": f"m{k + 8}"}, "id": f"m{k + 9}"},
            ]
            spec["roots"] = spec["roots"] + [f"m{k + 8}", f"m{k + 9}"]
        spec = gen.prune(spec)
        ops = gen_history(rng, cfg, spec)
        return {"cfg": cfg, "spec": spec, "ops": ops, "inplace": rng.random() < 0.33}

    def run_case(self, case):
        if case.get("xproc"):
            return self._run_xproc([case])[0]
        res = Result()
        spec = case["spec"]
        bad_seam = []

        def recording_keys_handler(request):
            out = _keys_request(request)
            res.bump("keys_requests_seen")
            for k in out:
                if not U.present(k, request.options):
                    bad_seam.append((type(request.cacheable).__name__, k, sorted(out)))
            return out

        with global_state_guard():
            # (in a third of the histories the caller keeps ONE dictionary object and edits it in place between calls)
            w = World(spec, inplace=bool(case.get("inplace")))
            strict = False
            table = {}  # node -> list of (keys tuple, restricted canonical text, fingerprint)
            with lrt.handle(KeysRequest, recording_keys_handler):
                for i, op in enumerate(case["ops"]):
                    o = op["o"]
                    res.bump("ops")
                    k = w.do(dict(op, op="keys"))
                    if bad_seam:
                        cls, key, reported = bad_seam[0]
                        res.violate("absent-key-reported", op_index=i, node=op["node"], o=o, by=cls, key=key, reported=reported)
                        break
                    f = w.do(dict(op, op="fingerprint"))
                    if i % 2 == 0:
                        w.do(op)  # keep the world warm: keys() on a warm world must equal keys() on a cold one
                    cold = w.twin(record=False)
                    kc = cold.do(dict(op, op="keys"))
                    if not k.same(kc):
                        res.violate("keys-differ-warm-vs-cold", op_index=i, node=op["node"], o=o, warm=k.brief(), cold=kc.brief())
                        break
                    if k.ok != f.ok:
                        res.violate("keys-and-fingerprint-disagree", op_index=i, node=op["node"], o=o, keys=k.brief(), fingerprint=f.brief())
                        break
                    if not k.ok:
                        res.bump("keys_failed")
                        continue
                    keys = eval(k.value)  # a sorted list literal produced by World
                    absent = [x for x in keys if not U.present(x, o)]
                    if absent:
                        res.violate("absent-key-reported", op_index=i, node=op["node"], o=o, key=absent[0], reported=keys, by="root")
                        break
                    # (ii) restricted twin
                    o2 = U.restrict(o, keys)
                    if U.crepr_json(o2) != U.crepr_json(o):
                        strict = strict or bool(keys)
                    ev1 = cold.do(dict(op, op="evaluate"))
                    cold2 = w.twin(record=False)
                    ev2 = cold2.do({"op": "evaluate", "node": op["node"], "o": o2})
                    k2 = cold2.do({"op": "keys", "node": op["node"], "o": o2})
                    res.bump("restricted_twins")
                    if not ev1.same(ev2):
                        res.violate("restricted-evaluation-differs", op_index=i, node=op["node"], o=o, keys=keys, restricted=o2, full=ev1.brief(), on_restricted=ev2.brief())
                        break
                    if not k2.ok or k2.value != k.value:
                        res.violate("restricted-keys-differ", op_index=i, node=op["node"], o=o, keys=keys, restricted=o2, keys_on_restricted=k2.brief())
                        break
                    # (iii) fingerprint relations against every earlier dictionary of this history
                    vals = json.dumps([[x, U.lookup(x, o)[1]] for x in keys])
                    for keys_p, vals_p, fp_p, o_p in table.get(op["node"], []):
                        if keys_p != keys:
                            continue
                        res.bump("fingerprint_pairs")
                        if vals_p == vals and fp_p != f.value:
                            res.violate("fingerprint-depends-on-unreported", op_index=i, node=op["node"], o=o, other=o_p, keys=keys)
                            break
                        if vals_p != vals and fp_p == f.value:
                            res.violate("fingerprint-ignores-reported-value", op_index=i, node=op["node"], o=o, other=o_p, keys=keys)
                            break
                    if res.violations:
                        break
                    table.setdefault(op["node"], []).append((keys, vals, f.value, o))
            res.stats["events"] = w.log.seq
            res.digest = w.log.digest()
            res.seen("history", (spec, [op["o"] for op in case["ops"]]))
            if strict:
                res.seen("history_with_strict_restriction", (spec, [op["o"] for op in case["ops"]]))
            res.sample = self.sample_of(case)
        return res

    # ------------------------------------------------------------------ (iv) other processes / hash seeds
    def _run_xproc(self, cases):
        """Fingerprint logs of `cases` here and in fresh interpreters with other hash seeds must be identical."""
        here = [fingerprint_log(c) for c in cases]
        results = [Result() for _ in cases]
        with tempfile.TemporaryDirectory(prefix="labsim-c03-") as tmp:
            job = os.path.join(tmp, "job.json")
            with open(job, "w") as f:
                json.dump({"mode": "c03", "cases": [{"spec": c["spec"], "ops": c["ops"]} for c in cases]}, f)
            for hs in CHILD_HASHSEEDS:
                env = dict(os.environ, PYTHONHASHSEED=hs)
                p = subprocess.run([sys.executable, "-m", "labsim.child", job], cwd=VERIF, env=env, capture_output=True, text=True, timeout=600)
                if p.returncode != 0:
                    raise RuntimeError(f"child interpreter failed: {p.stderr[-2000:]}")
                there = json.loads(p.stdout)["out"]
                for idx, (a, b) in enumerate(zip(here, there)):
                    results[idx].bump("xproc_fingerprints", len(a))
                    results[idx].fault("fresh_interpreter_PYTHONHASHSEED=" + hs)
                    if a != b and not results[idx].violations:
                        j = next(i for i, (x, y) in enumerate(zip(a, b)) if x != y)
                        results[idx].violate("fingerprint-differs-across-processes", hashseed=hs, op_index=j, here=a[j], there=b[j],
                                             node=cases[idx]["ops"][j]["node"], o=cases[idx]["ops"][j]["o"])
        for c, r in zip(cases, results):
            r.digest = U.crepr_json(here[cases.index(c)])[:64]
        return results

    def post_phase(self, tier, base_seed, rng_cases):
        """Run by the driver after the main loop: sampled histories re-executed in fresh interpreters."""
        cases = rng_cases(self.N_XPROC[tier])
        for c in cases:
            c["xproc"] = True
        out = []
        for start in range(0, len(cases), 60):
            chunk = cases[start:start + 60]
            for c, r in zip(chunk, isolated(self._run_xproc_dicts, chunk, timeout=900)):
                out.append((c, r))
        return out

    def _run_xproc_dicts(self, cases):
        return [r.to_dict() for r in self._run_xproc(cases)]

    def signature(self, case, violation):
        if violation["kind"] == "restricted-keys-differ":
            by = {n["id"]: n for n in case["spec"]["nodes"]}
            fallback = [n for n in by.values() if n["k"] == "coalesce" or (n["k"] in ("switch",) and n.get("default") is not None)
                        or (n["k"] == "dataset" and n.get("dispatch") is not None and not n.get("abstract"))]
            nested = [n for n in by.values() if n["k"] in ("switch", "case", "bind") or (n["k"] == "dataset" and n.get("dispatch") is not None)]
            if fallback and len(nested) >= 2:
                return "fallback-after-nested-failure"
        return None

    def shrink_candidates(self, case):
        for c in super().shrink_candidates(case):
            if case.get("xproc"):
                c["xproc"] = True
            yield c

"""C12 — failures surface as EvaluationError(source=root) with a cause chain to the original exception;
a failed evaluation stores nothing.  Fault sequences x histories: crash-point enumeration over every
invocation of a user callable of a fault-free run of the history."""
from labrea.exceptions import EvaluationError, KeyNotFoundError

import copy

from .. import gen
from .. import universe as U
from ..core import Result
from ..histsim import HistoryProperty, gen_history
from ..rt import FAULT_CLASSES, InjectedFault
from ..world import World, cause_chain, global_state_guard

from .. import world as _world  # registers the CacheGetFailure look-alike

# (every builtin Exception type once; the ones that labrea's own except clauses name -- or could plausibly come to name -- and the
#  unhashable user exception several times)
EXC = list(FAULT_CLASSES) + ["UnhashableError"] * 14 + ["TypeError", "KeyError", "ValueError", "AttributeError", "LookupError", "StopIteration", "IndexError", "RuntimeError"] * 4


def maskable_owners(spec):
    """Ids of the nodes whose failure some enclosing construct may LEGITIMATELY mask: everything reachable from a coalesce
    member, or from the dispatch of a switch / dataset that has a default to fall back to (over-approximation)."""
    by = {n["id"]: n for n in spec["nodes"]}
    starts = []
    for n in spec["nodes"]:
        k = n["k"]
        if k == "coalesce":
            starts.extend(n["members"])
        elif k == "switch" and n.get("default") is not None and isinstance(n["dispatch"], dict):
            starts.append(n["dispatch"]["n"])
        elif k == "dataset" and isinstance(n.get("dispatch"), dict) and not n.get("abstract"):
            starts.append(n["dispatch"]["n"])
    seen = set()
    stack = list(starts)
    while stack:
        i = stack.pop()
        if i in seen or i not in by:
            continue
        seen.add(i)
        stack.extend(gen.children(by[i]))
    return seen


THROUGH_KINDS = ("leaf",)  # (user-defined leaves: their code only ever runs inside their own evaluate(), and they are never copied)


def owner_of_callable(spec, kind, name):
    """Id of the node a stub callable belongs to (None if unknown)."""
    for n in spec["nodes"]:
        k = n["k"]
        if kind in ("body", "callback", "effect", "loghandler") and k == "dataset":
            base = name.split("#")[0]
            if n["name"] == base or any("fn" in impl and impl["fn"] == base for _, impl in n.get("overloads", [])):
                return n["id"]
        if kind == "leaf" and k == "opt" and name == f"leaf_{n['id']}":
            return n["id"]
        if kind == "pred" and k == "case" and name.startswith(f"pred_{n['id']}_"):
            return n["id"]
        if kind == "bindfn" and k == "bind" and name == f"bind_{n['id']}":
            return n["id"]
        if kind == "factory" and k == "opt" and name == f"fac_{n['id']}":
            return n["id"]
        if kind == "dompred" and k == "opt" and name == f"dom_{n['id']}":
            return n["id"]
        if kind == "step" and k == "apply":
            f = n["fn"]
            if any(g.get("name") == name for g in ([f] if f["t"] != "pipeline" else f["steps"])):
                return n["id"]
    return None


class C12(HistoryProperty):
    ID = "C12"
    LEVEL = "fault_enumeration"
    TECHNIQUE = "deterministic simulation with fault injection: for each seeded history, an exception of a seed-chosen type is injected at every (sampled: all up to a cap) invocation of a user callable of the fault-free run; oracles on the escaping exception and on the rest of the history vs. the same history without the failed op"
    LEVEL_TEXT = (
        "Crash-point enumeration: per sampled (program, history) the fault-free run lists every invocation of a body / callback / "
        "effect / predicate / step / factory / bind function / user-defined leaf; one run per listed invocation (all of them up to the tier's cap) "
        "injects an exception there (9 exception types incl. KeyError, LookupError, StopIteration, AttributeError). Oracles: whatever "
        "escapes evaluate() is an EvaluationError whose source is the object evaluate() was called on and whose __cause__ chain ends in "
        "a concrete cause (the injected instance, or a missing-key / unmatched-switch error naming an absent key), never a raw "
        "exception or a cause-less generic error, and for a failing user-defined leaf the chain names that leaf; when the injected exception itself surfaced, every later outcome equals the outcome "
        "of the same history with the failed op deleted, and re-evaluating the same dictionary right away equals the fault-free twin "
        "(progress within one op once faults stop). Thorough adds multi-fault plans."
    )
    LEVEL_NOTE = "A fault that is legitimately masked (switch default, coalesce fall-through) makes the op succeed by another path; values stored on that path are outside the statement, so the 'stores nothing' oracle is applied only when the injected exception itself reached the caller."
    DESIGN_REF = "3 C12"
    RULE = (
        "case = program spec + evaluate history + seeds choosing which invocations are faulted and with which exception type; one "
        "simulated run per faulted invocation; evaluations = faulted runs; distinct = hash of (spec, history, fault address, type); "
        "non-trivial = runs in which the injected fault fired and reached the caller of evaluate()"
    )
    ASSUMPTIONS = ["injected exceptions derive from Exception (not BaseException)", "type-consistent dictionaries"]
    QUICK = {"runs": 1800, "wall": 45}
    THOROUGH = {"runs": 60000, "wall": 540}
    NONTRIVIAL_MEASURE = "fault_surfaced"
    CAP = {"quick": 14, "thorough": 60}

    def gen_case(self, rng, tier):
        cfg = gen.swarm_cfg(rng, off=("shape_change",), on=("dsclass", "fapp"))
        cfg["odd_constants"] = rng.random() < 0.4
        cfg["empty_switches"] = rng.random() < 0.5  # a switch without any branch: every value is unmatched
        cfg["env_refs"] = rng.random() < 0.4  # Template texts referring to the process environment
        cfg["posonly_params"] = rng.random() < 0.4  # dataset functions with positional-only parameters
        cfg["stateful_callables"] = rng.random() < 0.5  # callback OBJECTS that a failed call leaves dirty
        cfg["user_evaluatables"] = rng.random() < 0.4  # user-defined Evaluatable leaves (also with methods inherited from a plain mixin)
        if cfg["stateful_callables"]:
            cfg["callbacks"] = True
        spec = gen.prune(gen.gen_spec(rng, cfg))
        spec["leaf_calls"] = True
        for n in spec["nodes"]:
            if n["k"] == "dataset" and n.get("cache", "default") == "default":
                # the real MemoryCache code path, with its calls logged; now and then a user's MemoryCache subclass that keeps a
                # store of its own (never calls MemoryCache.__init__)
                n["cache"] = "recording" if rng.random() < 0.85 else "own_store"
        # bare cached(...) nodes are driven directly too: they see the caller's dictionary object itself
        inner = [n["id"] for n in spec["nodes"] if n["k"] == "cached"]
        spec["roots"] = list(dict.fromkeys(spec["roots"] + rng.sample(inner, min(len(inner), 2))))
        dg = U.DictGen(rng, cfg, no_list_keys=gen.hashable_required_keys(spec))
        dg.MUTATIONS = list(dg.MUTATIONS) + ["repeat"] * 3
        ops = gen_history(rng, cfg, spec, n_ops=rng.randint(2, 9), dictgen=dg)
        if rng.random() < 0.15:
            # a switch of labrea's own given as a TEMPLATE whose reference is missing: an ordinary failed evaluation (the
            # missing option is named, a coalesce falls through past such a member)
            for op in ops:
                if rng.random() < 0.4:
                    op["o"] = dict(op["o"], LABREA={"CACHE": {rng.choice(["DISABLED", "DISABLE"]): "{NX9}"}})
        inplace = rng.random() < 0.33
        if rng.random() < 0.25:
            # "fail, correct the dictionary in place, retry, come back": one node, dictionaries A B A B on one object
            node = rng.choice(inner) if inner and rng.random() < 0.7 else rng.choice(spec["roots"])
            a = dg.fresh()
            dg.MUTATIONS = ["change", "change", "delete", "add", "sibling"]
            b, m = dg.mutate(a)
            # ... B differs from A at a key the node really reads (when there is a plain one)
            live = sorted(k for k in gen.live_reads(spec, node)[0] if k in U.SCALAR_KEYS + U.SECTION_KEYS + U.DISPATCH_KEYS)
            if live and rng.random() < 0.8:
                key = rng.choice(live)
                b = copy.deepcopy(a)
                cur = U.lookup(key, a)
                try:
                    U.set_path(b, key, rng.choice([v for v in (0, 1, 2, "a", "b") if not (cur[0] and U.crepr_json(cur[1]) == U.crepr_json(v))]))
                except (TypeError, KeyError, AttributeError):
                    b, m = dg.mutate(a)
            ops = [{"op": "evaluate", "node": node, "o": copy.deepcopy(x), "mut": "retry-pattern"} for x in (a, b, a, b)]
            inplace = True
        no_retry = inplace and rng.random() < 0.6
        picks = [[rng.random(), rng.choice(EXC)] for _ in range(self.CAP[tier])]
        multi = tier == "thorough" and rng.random() < 0.3
        # (in a third of the histories the caller keeps ONE dictionary object and corrects it in place after a failure)
        return {"cfg": cfg, "spec": spec, "ops": ops, "picks": picks, "multi": multi, "inplace": inplace, "no_immediate_retry": no_retry,
                "log_handler": rng.random() < 0.25}  # a quarter of the histories run under a LogRequest handler of the user's

    # ------------------------------------------------------------------ one faulted run
    def _check_failure(self, res, world, obj, out, i, op, faults_desc):
        """Oracle (a) on a failed evaluation. Returns True iff the injected fault itself surfaced."""
        e = out.exc
        if not isinstance(e, EvaluationError):
            res.violate("raw-exception-escaped", op_index=i, node=op["node"], o=op["o"], error=out.brief(), faults=faults_desc)
            return False
        if e.source is not obj:
            res.violate("wrong-source", op_index=i, node=op["node"], o=op["o"], source=repr(e.source)[:200], faults=faults_desc)
            return False
        chain = cause_chain(e)
        root = chain[-1]
        if type(root) is EvaluationError:
            res.violate("cause-chain-lost", op_index=i, node=op["node"], o=op["o"], error=out.brief(), chain=[type(x).__name__ for x in chain], faults=faults_desc)
            return False
        # "leads through the nested objects": a re-wrapped error names the source of the error it wraps
        for x in chain:
            c = x.__cause__
            if type(x) is EvaluationError and isinstance(c, EvaluationError) and x.msg.startswith("Error during evaluation of "):
                if x.msg != f"Error during evaluation of {c.source}":
                    res.violate("cause-chain-rewired", op_index=i, node=op["node"], o=op["o"], wrapper=x.msg[:160], cause_source=str(c.source)[:160],
                                chain=[type(y).__name__ for y in chain], faults=faults_desc)
                    return False
        # the chain ends in a CONCRETE cause: the injected exception, one of labrea's own failure classes, or a ValueError of a
        # domain check -- not in an accident inside labrea (unhashable ..., a bare KeyError, an unbound local, a missing attribute)
        translated = len(chain) > 1 and isinstance(chain[-2], KeyNotFoundError)  # (the KeyError of the lookup, named by its wrapper)
        accident = isinstance(root, (KeyError, UnboundLocalError, NameError, RecursionError, IndexError)) or (
            # (a TypeError can be the user's data -- 1.0 in 'abc' --; one about hashing the INJECTED exception object is labrea's)
            isinstance(root, TypeError) and "unhashable type: 'Injected" in str(root))
        if not isinstance(root, (InjectedFault, EvaluationError)) and not translated and accident:
            res.violate("internal-error-as-root-cause", op_index=i, node=op["node"], o=op["o"], error=out.brief(), root=f"{type(root).__name__}: {str(root)[:160]}",
                        chain=[type(x).__name__ for x in chain], faults=faults_desc)
            return False
        knf = next((x for x in chain if isinstance(x, KeyNotFoundError)), None)
        if knf is not None and not isinstance(root, InjectedFault):
            key = knf.key
            rewriting = any(n["k"] in ("withopts", "derive", "map") or (n["k"] == "dataset" and (n.get("options") or n.get("default_options"))) for n in world.spec["nodes"])
            if not rewriting and isinstance(key, str) and U.present(key, op["o"]) and not key.startswith(":"):
                res.violate("missing-key-error-names-present-key", op_index=i, node=op["node"], o=op["o"], key=key, faults=faults_desc)
                return False
        return isinstance(root, InjectedFault) and tuple(root.addr) in {tuple(a) for a in world.fired}

    def _unmaskable(self, spec, addr):
        """No construct above the faulted callable may swallow its exception: the op must fail, and with THIS exception."""
        key = id(spec)
        if getattr(self, "_mask_cache", (None,))[0] != key:
            self._mask_cache = (key, maskable_owners(spec))
        owner = owner_of_callable(spec, addr[1], addr[2])
        return owner is not None and owner not in self._mask_cache[1]

    @staticmethod
    def _sets_before_fault(world, op_index):
        """(backends that established a MISS, backends that stored) in this op BEFORE the (first) fault fired."""
        missed, stored, stored_later = [], [], []
        faulted = False
        for ev in world.log.events:
            if ev[0] == "fault" and ev[1][0] == op_index:
                faulted = True
            if ev[0] == "call" and ev[1] == op_index and ev[2] == "backend":
                if ev[3].endswith(".set"):
                    (stored_later if faulted else stored).append(ev[3][: -len(".set")])
                elif ev[3].endswith(".exists=miss") and not faulted:
                    missed.append(ev[3][: -len(".exists=miss")])
        # a dataset evaluated again, successfully, later in the same op (labrea evaluates selector positions
        # several times: validate, keys, explain) legitimately has an entry
        return [m for m in missed if m not in stored_later], stored

    @staticmethod
    def _failed_cache_names(world, exc):
        """Names of the recording backends of the datasets whose evaluation raised (cause-chain sources)."""
        by_obj = {id(o): nid for nid, o in world.prog.obj.items()}
        names = []
        for e in cause_chain(exc):
            src = getattr(e, "source", None)
            nid = by_obj.get(id(src))
            if nid is None:
                continue
            n = world.prog.node[nid]
            while n["k"] == "derive":
                n = world.prog.node[n["base"]]
            if n["k"] == "dataset" and n.get("cache") == "recording" and n["name"] not in names:
                names.append(n["name"])
        return names

    def _faulted_run(self, res, case, faults, out0):
        """faults: {(op index, kind, name, nth): exception class name}. out0: fault-free outcomes."""
        spec, ops = case["spec"], case["ops"]
        fault_ops = sorted({a[0] for a in faults})
        desc = [list(a) + [x] for a, x in faults.items()]
        wf = World(spec, faults=dict(faults), inplace=bool(case.get("inplace")), log_handler=bool(case.get("log_handler")))
        surfaced_all = True
        failed_ops = []
        outs = {}
        for i, op in enumerate(ops):
            # fault addresses use the history index; keep the world's op counter aligned with it
            wf.op_index = i - 1
            out = wf.do(op)
            outs[i] = out
            if i in fault_ops:
                fired_here = [a for a in wf.fired if a[0] == i]
                if not fired_here:
                    res.bump("planned_fault_did_not_fire")
                    continue
                for a in fired_here:
                    res.fault(f"{a[1]}:{faults[tuple(a)]}")
                unmaskable = len(fired_here) == 1 and self._unmaskable(spec, fired_here[0])
                if out.ok:
                    if unmaskable:
                        res.violate("fault-swallowed", op_index=i, node=op["node"], o=op["o"], value=out.brief(), fault=list(fired_here[0]), faults=desc)
                        return
                    res.bump("fault_masked_op_succeeded")
                    surfaced_all = False
                    continue
                surfaced = self._check_failure(res, wf, wf.prog.obj[op["node"]], out, i, op, desc)
                if res.violations:
                    return
                if surfaced and len(fired_here) > 1:
                    # several faults fired in this op and only one reached the caller: the others were masked, and what a
                    # masked fault's fallback path stored is outside the statement
                    surfaced = False
                if not surfaced and unmaskable:
                    res.violate("original-exception-unreachable", op_index=i, node=op["node"], o=op["o"], error=out.brief(),
                                chain=[type(x).__name__ for x in cause_chain(out.exc)], fault=list(fired_here[0]), faults=desc)
                    return
                if not surfaced:
                    res.bump("fault_masked_op_failed_otherwise")
                    surfaced_all = False
                    continue
                res.bump("fault_surfaced")
                if len(fired_here) == 1 and fired_here[0][1] in THROUGH_KINDS:
                    # "leads through the nested objects": the object whose own code raised is one of them
                    owner = owner_of_callable(spec, fired_here[0][1], fired_here[0][2])
                    if owner is not None and not any(getattr(x, "source", None) is wf.prog.obj[owner] for x in cause_chain(out.exc)):
                        res.violate("cause-chain-skips-the-failing-object", op_index=i, node=op["node"], o=op["o"], failing=owner, fault=list(fired_here[0]),
                                    chain=[f"{type(x).__name__}:{str(getattr(x, 'source', ''))[:60]}" for x in cause_chain(out.exc)], faults=desc)
                        return
                    res.bump("chains_checked_for_the_failing_object")
                failed_ops.append(i)
                if not surfaced_all:
                    # an EARLIER fault of this run was masked: whatever its fallback path stored (legitimately) now shapes
                    # the outcomes, so the fault-free yardsticks below no longer apply to this run
                    continue
                if case.get("no_immediate_retry"):
                    # the caller does NOT repeat the failed call: it goes on (corrects its dictionary, asks something else);
                    # only the later-outcome comparison below applies to such a run
                    res.bump("failed_ops_not_retried")
                    continue
                # datasets whose own evaluation failed: the sources named along the cause chain
                failed_ds = self._failed_cache_names(wf, out.exc)
                # bounded liveness: faults stopped -> the very next evaluation of the same dictionary succeeds/fails as on a fault-free twin
                wf.op_index = 10_000 + i
                before = wf.snapshot_counts()
                again = wf.do(op)
                delta = wf.diff_counts(before, wf.counts)
                cold = World(spec, record=False).do(op)
                if not again.same(cold):
                    res.violate("not-recovered-after-fault", op_index=i, node=op["node"], o=op["o"], retry=again.brief(), fault_free=cold.brief(), faults=desc)
                    return
                if again.ok:
                    # stores nothing, literally: a dataset that failed was a miss, so the retry must compute and store it now
                    missed, stored_before_fault = self._sets_before_fault(wf, i)
                    for name in failed_ds:
                        if name not in missed:
                            continue  # the fault fired before the lookup completed: an older entry may legitimately exist
                        res.bump("failed_datasets_checked_for_leftover_entry")
                        if not delta.get(("backend", name + ".set")):
                            v = res.violate("failed-evaluation-left-a-cache-entry", op_index=i, node=op["node"], o=op["o"], dataset=name,
                                            retry_backend_calls={k[1]: v for k, v in delta.items() if k[0] == "backend"}, faults=desc,
                                            store_preceded_fault=name in stored_before_fault)
                            return
            elif not out.ok and out.exc is not None:
                # ordinary failures are judged by oracle (a) too
                self._check_failure(res, wf, wf.prog.obj[op["node"]], out, i, op, desc)
                if res.violations:
                    return
        if surfaced_all and failed_ops:
            # stores nothing: the same history with the failed ops deleted, on a second world
            ws = World(spec, record=False, inplace=bool(case.get("inplace")), log_handler=bool(case.get("log_handler")))
            for i, op in enumerate(ops):
                if i in failed_ops:
                    continue
                ref = ws.do(op)
                if i > failed_ops[0]:
                    res.bump("later_ops_compared")
                    if not outs[i].same(ref):
                        res.violate("failed-evaluation-changed-later-outcome", op_index=i, node=op["node"], o=op["o"], after_fault=outs[i].brief(),
                                    without_failed_op=ref.brief(), faults=desc)
                        return
        res.seen("faulted_run", (spec, ops, desc))
        if failed_ops:
            res.seen("fault_surfaced", (spec, ops, desc))

    def run_case(self, case):
        res = Result()
        spec, ops = case["spec"], case["ops"]
        with global_state_guard():
            w0 = World(spec, inplace=bool(case.get("inplace")), log_handler=bool(case.get("log_handler")))
            out0 = [w0.do(op) for op in ops]
            calls = [(ev[1], ev[2], ev[3], ev[4]) for ev in w0.log.events if ev[0] == "call" and ev[2] != "backend"]
            res.stats["events"] = w0.log.seq
            res.bump("fault_free_invocations", len(calls))
            # a store must come after the dataset's effects (they are part of its evaluation and may still fail)
            from .c02 import C02

            by_name = {n["name"]: n for n in spec["nodes"] if n["k"] == "dataset"}
            bad = C02._check_effects(w0, 0, by_name, res)
            if bad and bad[0] == "effects-not-once-per-store":
                res.violate("stored-before-effects-completed", **bad[1])
            res.digest = w0.log.digest()
            if "faults" in case:  # a minimised replay carries its fault plan explicitly
                plans = [{tuple(a[:4]): a[4] for a in case["faults"]}]
            elif not calls:
                plans = []
            elif case.get("multi"):
                plans = []
                for k in range(0, len(case["picks"]) - 1, 2):
                    p = {}
                    for frac, exc in case["picks"][k:k + 2]:
                        p[calls[int(frac * len(calls))]] = exc
                    plans.append(p)
            elif len(calls) <= len(case["picks"]):
                plans = [{c: case["picks"][j][1]} for j, c in enumerate(calls)]  # exhaustive over the run's invocations
                res.bump("histories_swept_exhaustively")
            else:
                plans = [{calls[int(frac * len(calls))]: exc} for frac, exc in case["picks"]]
            stash = None
            for plan in plans:
                res.bump("faulted_runs")
                self._faulted_run(res, case, plan, out0)
                if res.violations:
                    v = res.violations[0]
                    v["detail"]["plan"] = [list(a) + [x] for a, x in plan.items()]
                    if self.signature(case, v) in ("fault-in-key-computation-during-read-back", "user-exception-typed-as-cache-miss-signal"):
                        # open known finding: remember one instance, keep sweeping the other invocations
                        res.bump("known_read_back_hits")
                        stash = stash or v
                        res.violations.clear()
                        continue
                    break
            if stash is not None and not res.violations:
                res.violations.append(stash)
            res.sample = dict(self.sample_of(case), faulted_invocations=[list(p)[0] for p in plans[:3]] if plans else [])
        return res

    def shrink_candidates(self, case):
        # first pin the failing fault plan (then shrink ops / spec around it)
        if "faults" not in case:
            res = self.run_case(case)
            if res.violations and "plan" in res.violations[0]["detail"]:
                yield dict(case, faults=res.violations[0]["detail"]["plan"])
            return
        for c in super().shrink_candidates(case):
            if len(c["ops"]) < len(case["ops"]):
                # re-address faults: find where ops were removed
                removed = self._removed_indices(case["ops"], c["ops"])
                faults = []
                ok = True
                for a in case["faults"]:
                    if a[0] in removed:
                        ok = False
                        break
                    faults.append([a[0] - sum(1 for r in removed if r < a[0])] + a[1:])
                if not ok:
                    continue
                c = dict(c, faults=faults)
            yield c

    @staticmethod
    def _removed_indices(old, new):
        removed = []
        j = 0
        for i, op in enumerate(old):
            if j < len(new) and new[j] == op:
                j += 1
            else:
                removed.append(i)
        return removed

    def signature(self, case, violation):
        if violation["kind"] == "failed-evaluation-left-a-cache-entry" and violation["detail"].get("store_preceded_fault"):
            return "fault-in-key-computation-during-read-back"
        d = violation["detail"]
        if violation["kind"] == "fault-swallowed" and any(f[4] == "CacheGetFailure" for f in d.get("faults", [])):
            return "user-exception-typed-as-cache-miss-signal"
        if violation["kind"] == "original-exception-unreachable" and any(f[:4] == list(d.get("fault", [])) and f[4] == "CacheGetFailure" for f in d.get("faults", [])):
            # the same finding in a multi-fault plan: the look-alike was taken for a miss, the op then failed for another reason
            return "user-exception-typed-as-cache-miss-signal"
        if gen.scalar_at_section_prefix(case["spec"], [op["o"] for op in case["ops"] if "o" in op]):
            return "scalar-at-section-prefix"
        return None

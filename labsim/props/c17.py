"""C17 — an unreliable cache backend costs recomputation, never a wrong value or a failure."""
import itertools

from .. import gen
from ..core import Result
from ..histsim import HistoryProperty, gen_history
from ..world import World, global_state_guard

KINDS = {"exists": ["miss", "forget", "lie-exists"], "get": ["fail-get", "fail-get-chained", "forget"], "set": ["fail-readback"]}


class C17(HistoryProperty):
    ID = "C17"
    LEVEL = "fault_enumeration"
    TECHNIQUE = "deterministic simulation with a scripted faulty Cache backend: for each seeded history, every single fault at every backend call index of the fault-free run (and all pairs over the first calls); thorough adds random fault scripts at several rates"
    LEVEL_TEXT = (
        "Fault enumeration over the storage seam (the public Cache ABC): a FaultyCache follows the contract but, at a scripted global "
        "call index, reports a miss, forgets the entry, claims an entry exists whose retrieval then fails, fails a get after exists "
        "said yes, or fails to read back what was just stored. Per sampled (program, history): one run per (call index, applicable "
        "fault kind) over the fault-free run's backend calls up to the tier's cap, plus all pairs over the first 8 calls. Oracle: every "
        "evaluation's outcome equals the outcome of the same history on an honest backend - never a wrong value, never a new failure."
    )
    LEVEL_NOTE = "Only faults the statement lists are injected (no exceptions from set/exists, no corrupted values). Trusted: FaultyCache (40 lines) and the honest-backend reference run."
    DESIGN_REF = "3 C17"
    RULE = (
        "case = program spec with FaultyCache on every cached dataset + evaluate history; evaluations = faulted runs; distinct = hash "
        "of (spec, history, script); non-trivial = runs in which at least one scripted fault actually fired"
    )
    ASSUMPTIONS = ["backend faults are limited to the kinds the statement lists", "stub bodies are deterministic"]
    REAL = HistoryProperty.REAL
    STUBS = HistoryProperty.STUBS + ["FaultyCache(Cache): fingerprint-keyed dict with a scripted fault per global call index", "FaultyCacheDefaultExists(Cache): same, relying on the ABC default exists()", "FaultyMemoryCache(MemoryCache): inherited get/set, own (possibly stale) index for exists()", "FaultyFront(Cache): delegates to an inner FaultyCache, whose miss signal names the inner object"]
    QUICK = {"runs": 1000, "wall": 45}
    THOROUGH = {"runs": 60000, "wall": 540}
    REQUIRED_CACHE = None

    def spec_valid(self, spec):
        if any(n["k"] == "dataset" and n.get("cache") not in ("faulty", "faulty_ne", "faulty_mc", "faulty_front") for n in spec["nodes"]):
            return False
        return gen.spec_ok(spec)

    NONTRIVIAL_MEASURE = "run_with_fired_fault"
    CAP = {"quick": 40, "thorough": 160}

    def gen_case(self, rng, tier):
        cfg = gen.swarm_cfg(rng, off=("shape_change", "nocache"), on=("coalesce", "fapp"))
        cfg["tuple_constants"] = rng.random() < 0.4  # tuple constants with a mutable member ...
        cfg["mutating_bodies"] = cfg["tuple_constants"]  # ... on which bodies work in place: a RE-computation must see a fresh copy
        spec = gen.prune(gen.gen_spec(rng, cfg))
        if rng.random() < 0.35:
            # a coalesce whose first member is a cached dataset that CANNOT be evaluated under any generated dictionary
            # (it needs a key that is never supplied): a backend lying "exists" while that member is validated must not
            # keep the coalesce from reaching its fallback
            k = len(spec["nodes"])
            spec["nodes"] += [
                {"k": "opt", "key": "Q9", "id": f"q{k}"},
                {"k": "dataset", "name": "NEEDSQ9", "args": {"a": f"q{k}"}, "id": f"q{k + 1}"},
                {"k": "val", "v": "fallback", "id": f"q{k + 2}"},
                {"k": "coalesce", "members": [f"q{k + 1}", f"q{k + 2}"], "id": f"q{k + 3}"},
                {"k": "dataset", "name": "OVERCOALESCE", "args": {"a": f"q{k + 3}"}, "id": f"q{k + 4}"},
            ]
            spec["roots"] = spec["roots"] + [f"q{k + 3}", f"q{k + 4}"]
        # faulty_ne: a backend that relies on the ABC's default exists(); faulty_mc: one built on labrea's MemoryCache
        # (inherited get/set) with an index of its own for exists()
        # faulty_front: a front delegating to an inner cache (the miss signal names the inner object)
        kind = rng.choice(["faulty", "faulty", "faulty_ne", "faulty_ne", "faulty_mc", "faulty_front"])
        for n in spec["nodes"]:
            if n["k"] == "dataset" and n.get("cache", "default") == "default":
                n["cache"] = kind
        dg = None
        ops = gen_history(rng, cfg, spec, n_ops=rng.randint(2, 8))
        mode = "random" if (tier == "thorough" and rng.random() < 0.4) else "sweep"
        rate = rng.choice([0.05, 0.1, 0.2, 0.4])
        rnd = [[rng.random(), rng.randrange(3)] for _ in range(400)] if mode == "random" else []
        return {"cfg": cfg, "spec": spec, "ops": ops, "mode": mode, "rate": rate, "rnd": rnd, "offset": rng.random()}

    def _run_script(self, res, case, script, ref):
        spec, ops = case["spec"], case["ops"]
        w = World(spec, backend_script=script, record=False)
        for i, op in enumerate(ops):
            out = w.do(op)
            if not out.same(ref[i]):
                res.violate("wrong-outcome-under-backend-fault", op_index=i, node=op["node"], o=op["o"], got=out.brief(), honest=ref[i].brief(),
                            script=sorted([k, v] for k, v in script.items()), fired=[list(f) for f in w.backend_fired])
                return
        for f in w.backend_fired:
            res.fault(f"{f[2]}:{f[3]}")
        res.seen("run", (spec, ops, sorted(script.items())))
        if w.backend_fired:
            res.seen("run_with_fired_fault", (spec, ops, sorted(script.items())))

    def run_case(self, case):
        res = Result()
        spec, ops = case["spec"], case["ops"]
        with global_state_guard():
            w0 = World(spec)
            ref = [w0.do(op) for op in ops]
            calls = [(ev[4], ev[3]) for ev in w0.log.events if ev[0] == "backend"]  # (index, method)
            res.stats["events"] = w0.log.seq
            res.bump("honest_backend_calls", len(calls))
            res.digest = w0.log.digest()
            if "script" in case:
                scripts = [{int(k): v for k, v in case["script"]}]
            elif case["mode"] == "random":
                scripts = []
                for s in range(6):
                    script = {}
                    for idx, method in calls:
                        frac, pick = case["rnd"][(s * 61 + idx) % len(case["rnd"])]
                        if frac < case["rate"]:
                            kinds = KINDS[method]
                            script[idx] = kinds[pick % len(kinds)]
                    scripts.append(script)
            else:
                singles = [{idx: kind} for idx, method in calls for kind in KINDS[method]]
                cap = self.CAP["quick"]
                if len(singles) > cap:
                    start = int(case["offset"] * len(singles))
                    singles = [singles[(start + j * max(1, len(singles) // cap)) % len(singles)] for j in range(cap)]
                else:
                    res.bump("histories_swept_exhaustively")
                first = [(idx, method) for idx, method in calls[:8]]
                pairs = []
                for (i1, m1), (i2, m2) in itertools.combinations(first, 2):
                    for k1 in KINDS[m1]:
                        for k2 in KINDS[m2]:
                            pairs.append({i1: k1, i2: k2})
                if len(pairs) > 24:
                    start = int(case["offset"] * len(pairs))
                    pairs = [pairs[(start + j * (len(pairs) // 24)) % len(pairs)] for j in range(24)]
                scripts = singles + pairs
            for script in scripts:
                res.bump("faulted_runs")
                self._run_script(res, case, script, ref)
                if res.violations:
                    break
            res.sample = dict(self.sample_of(case), scripts=[sorted(s.items()) for s in scripts[:3]])
        return res

    def shrink_candidates(self, case):
        if "script" not in case:
            res = self.run_case(case)
            if res.violations:
                yield dict(case, script=res.violations[0]["detail"]["script"])
            return
        for j in range(len(case["script"])):
            if len(case["script"]) > 1:
                yield dict(case, script=case["script"][:j] + case["script"][j + 1:])
        # dropping ops shifts backend call indices: re-derive the script by trying every index shift is too wide;
        # shrink trailing ops and the spec only
        ops = case["ops"]
        for n in range(len(ops) - 1, 0, -1):
            yield dict(case, ops=ops[:n])
        for c in self._spec_candidates(case):
            if self.spec_valid(c["spec"]):
                yield c

"""C06 — laziness: only bodies on the selected path run, and only when evaluated.

Oracle by fault masking: a small selection model (which branch / member / implementation / default is
selected, using values obtained from a cold twin) yields the set of bodies and default factories that a
correct evaluation may run; every OTHER body and factory of the program is armed with a raising fault;
the evaluation must not fire any of them and must return what the un-armed evaluation returns."""
import copy

import labrea
from labrea import Option, datasetclass

from .. import gen
from .. import rt
from .. import universe as U
from ..build import _key
from ..core import Result
from ..histsim import HistoryProperty, gen_history
from ..rt import crepr
from ..world import World, global_state_guard


class Selection:
    """Computes the callables (bodies, factories) a correct evaluation of `root` under `o` may run."""

    def __init__(self, spec, twin, o):
        self.by = {n["id"]: n for n in spec["nodes"]}
        self.t = twin
        self.o = o
        self.allowed = set()  # ("body", name) / ("factory", name)
        self.seen = set()

    def value(self, nid, o=None):
        ok, v = self.t.raw(nid, self.o if o is None else o)
        return ok, v

    def allow_all(self, nid, seen=None):
        seen = seen if seen is not None else set()
        if nid in seen:
            return
        seen.add(nid)
        n = self.by[nid]
        self._own(n)
        for _, impl in n.get("overloads", []) if n["k"] == "dataset" else []:
            if "fn" in impl:
                self.allowed.add(("body", impl["fn"]))
        for c in gen.children(n):
            self.allow_all(c, seen)

    def _own(self, n):
        if n["k"] == "dataset":
            self.allowed.add(("body", n["name"]))
        if n["k"] == "opt" and (n.get("default") or {}).get("t") == "factory":
            self.allowed.add(("factory", f"fac_{n['id']}"))

    def walk(self, nid, o=None):
        """o: the options in effect at this node (the caller's, overlaid by enclosing pre-set / default / Map options)."""
        o = self.o if o is None else o
        mark = (nid, U.crepr_json(o))
        if mark in self.seen:
            return
        self.seen.add(mark)
        n = self.by[nid]
        k = n["k"]
        outer_o, self.o = self.o, o  # the helpers below read self.o
        try:
            self._walk(n, nid, k)
        finally:
            self.o = outer_o

    def _walk(self, n, nid, k):
        if k == "opt":
            dom = n.get("domain") or {}
            if dom.get("t") == "expr":
                self.walk(dom["n"])
            if not U.present(n["key"], self.o):
                d = n.get("default") or {}
                if d.get("t") == "expr":
                    self.walk(d["n"])
                elif d.get("t") == "factory":
                    self.allowed.add(("factory", f"fac_{n['id']}"))
        elif k == "apply":
            self.walk(n["src"])
            for c in gen._fn_children(n["fn"]):
                self.walk(c)
        elif k == "bind":
            self.walk(n["src"])
            ok, v = self.value(n["src"])
            if ok:
                self.walk(n["table"].get(crepr(v), n["default"]))
        elif k == "switch":
            if isinstance(n["dispatch"], dict):
                self.walk(n["dispatch"]["n"])
                ok, v = self.value(n["dispatch"]["n"])
            else:
                ok, v = U.lookup(n["dispatch"], self.o)
                if ok and isinstance(v, str) and U.template_refs(v):
                    # a templated dispatch value: let labrea resolve it — treat every branch as possible
                    for _, b in n["lookup"]:
                        self.walk(b)
                    if n.get("default") is not None:
                        self.walk(n["default"])
                    return
            chosen = None
            if ok:
                try:
                    for c, b in n["lookup"]:
                        if _key(c) == v and type(_key(c)) is type(v) or (_key(c) == v):
                            chosen = b
                            break
                except TypeError:
                    chosen = None
            if chosen is None:
                chosen = n.get("default")
            if chosen is not None:
                self.walk(chosen)
        elif k == "case":
            self.walk(n["dispatch"])
            ok, v = self.value(n["dispatch"])
            if not ok:
                return
            for pred, result in n["cases"]:
                if pred["t"] == "eq":
                    hit = crepr(v) == crepr(pred["v"])
                else:
                    self.walk(pred["n"])
                    pok, pv = self.value(pred["n"])
                    if not pok:
                        return
                    hit = crepr(v) == crepr(pv)
                if hit:
                    self.walk(result)
                    return
            if n.get("default") is not None:
                self.walk(n["default"])
        elif k == "coalesce":
            for m in n["members"]:
                vok, _ = self.t.raw(m, self.o, "validate")
                eok, _ = self.value(m) if vok else (False, None)
                if vok and eok:
                    self.walk(m)
                    return
                self.allow_all(m)  # a member that was tried and failed: anything beneath it may have run
        elif k in ("list", "tuple"):
            for c in n["items"]:
                self.walk(c)
        elif k == "dict":
            for _, c in n["items"]:
                self.walk(c)
        elif k == "namespace":
            # a member's default (an Evaluatable) is evaluated only when the caller does not supply the member
            for m in n["members"]:
                if m["t"] == "expr" and not U.present(f"{n['name']}.{m['name']}", self.o):
                    self.walk(m["n"])
        elif k == "dsclass":
            # every member the class HAS is evaluated on instantiation; an inherited member that is overridden is not
            for c in gen.dsclass_members(self.by, n).values():
                self.walk(c)
        elif k == "template":
            for c in n.get("params", {}).values():
                self.walk(c)
        elif k == "cached":
            self.walk(n["inner"])
        elif k == "dataset":
            if (n.get("options") or n.get("default_options")) and not n.get("_inside"):
                o2 = U.overlay(U.overlay(n.get("default_options") or {}, self.o), n.get("options") or {})
                inner = dict(n, _inside=True)
                self.by[nid] = inner
                try:
                    self.seen.discard((nid, U.crepr_json(o2)))
                    self.walk(nid, o2)
                finally:
                    self.by[nid] = n
                return
            disp = n.get("dispatch")
            impl = None
            if disp is not None:
                if isinstance(disp, dict):
                    self.walk(disp["n"])
                    ok, v = self.value(disp["n"])
                else:
                    ok, v = U.lookup(disp, self.o)
                    if ok and isinstance(v, str) and U.template_refs(v):
                        self.allow_all(nid)
                        return
                if ok:
                    try:
                        for alias, i in n.get("overloads", []):
                            for a in (alias if isinstance(alias, list) else [alias]):
                                if _key(a) == v:
                                    impl = i
                    except TypeError:
                        impl = None
            if impl is None:
                self.allowed.add(("body", n["name"]))
                for c in n.get("args", {}).values():
                    self.walk(c)
            elif "n" in impl:
                self.walk(impl["n"])
            else:
                self.allowed.add(("body", impl["fn"]))
                for c in impl.get("args", {}).values():
                    self.walk(c)
        elif k == "withopts":
            o2 = U.overlay(self.o, n["options"]) if n.get("force", True) else U.overlay(n["options"], self.o)
            self.walk(n["inner"], o2)
        elif k == "derive":
            o2 = U.overlay(self.o, n["options"]) if n["how"] == "with_options" else U.overlay(n["options"], self.o)
            self.walk(n["base"], o2)
        elif k == "map":
            import itertools

            lists = []
            for key, it in n["iterables"].items():
                self.walk(it)
                ok, v = self.value(it)
                try:
                    lists.append([(key, x) for x in v] if ok else None)
                except TypeError:
                    lists.append(None)
            if any(l is None for l in lists):
                return
            for j, combo in enumerate(itertools.product(*lists)):
                o2 = self.o
                for key, x in combo:
                    top = {}
                    U.set_path(top, key, x)
                    o2 = U.overlay(o2, top)
                if j > 0 and n.get("consume") == "first":
                    # a Map is lazy: elements its consumer never asks for are never EVALUATED.  Their keys() are still wanted by
                    # whatever caches the Map, and keys() evaluates what stands in selector positions (a dispatch that is a
                    # dataset): exactly what a fresh twin runs for target.keys(o2) is allowed, nothing else of the element
                    kt = self.t.twin(record=False)
                    kt.raw(n["target"], o2, "keys")
                    for (kind, name), c in kt.counts.items():
                        if c and kind in ("body", "factory"):
                            self.allowed.add((kind, name))
                    continue
                self.walk(n["target"], o2)
        else:  # node kinds outside the model
            self.allow_all(nid)


def all_lazy_callables(spec):
    out = set()
    for n in spec["nodes"]:
        if n["k"] == "dataset":
            out.add(("body", n["name"]))
            for _, impl in n.get("overloads", []):
                if "fn" in impl:
                    out.add(("body", impl["fn"]))
        if n["k"] == "opt" and (n.get("default") or {}).get("t") == "factory":
            out.add(("factory", f"fac_{n['id']}"))
    return out


class C06(HistoryProperty):
    ID = "C06"
    LEVEL = "exploration"
    TECHNIQUE = "deterministic simulation with fault masking: per evaluation a selection model names the bodies / default factories that may run, every other one is armed with a raising fault on a warm world and on a cold twin; plus construction-time monitors (no body runs while building, composing, overloading, defining interfaces / dataset classes)"
    LEVEL_TEXT = (
        "Seeded search over (program, history). For each evaluate op the selection model (branch of switch / case / overload by the "
        "dispatch value obtained from a cold twin, first validating-and-evaluating coalesce member, Option default only when the key is "
        "absent, case conditions only up to the first match) computes the set A of bodies and factories a correct evaluation may run; "
        "all others are armed to raise. Oracle: no armed fault fires and the outcome equals the un-armed one, on the long-lived "
        "world and on a cold twin. Members of a coalesce that were tried and failed, and all selector positions, are allowed (the "
        "statement forbids only unselected branches, later members, unused defaults). Construction monitor: building the program, "
        "with_options, >>, +, overload/register, interface / implementation / dataset-class definition run no stub at all. For apply "
        "roots, the source's bodies precede the step parameters' bodies in the cold log. Sampling, not proof."
    )
    LEVEL_NOTE = "The selection model tracks the options in effect through pre-set / default options, with_options derivations, wrappers and Map elements with the independent overlay of labsim.universe (whose agreement with labrea is C08's subject); it over-approximates the allowed set wherever it is unsure (templated dispatch values, failed coalesce members, unknown node kinds)."
    DESIGN_REF = "3 C06"
    RULE = (
        "case = program spec + evaluate history; distinct = hash of (spec, dictionaries); non-trivial = "
        "histories in which at least one op had a non-empty armed set"
    )
    ASSUMPTIONS = ["hashable dispatch values, type-consistent dictionaries, template-closed dictionaries"]
    QUICK = {"runs": 9000, "wall": 40}
    THOROUGH = {"runs": 300000, "wall": 480}
    NONTRIVIAL_MEASURE = "history_with_armed_faults"

    def gen_case(self, rng, tier):
        cfg = gen.swarm_cfg(rng, off=("shape_change", "alloptions", "dangling", "tmpl_preset"), on=("dispatch", "overloads", "opt_default_expr", "dsclass", "namespace"))
        cfg["posonly_params"] = rng.random() < 0.4  # dataset functions with positional-only parameters
        cfg["map_partial"] = True
        cfg["namespace_keys"] = True
        cfg["returns_node"] = rng.random() < 0.5  # bodies handing back an Evaluatable OBJECT as a plain value
        if rng.random() < 0.4:  # a share of the programs without option-rewriting nodes at all (the simplest setting)
            cfg["kinds"] = [k for k in cfg["kinds"] if k not in ("withopts", "derive", "map")]
            cfg["presets"] = cfg["default_presets"] = False
        spec = gen.gen_spec(rng, cfg)
        if rng.random() < 0.4:
            # chained >> : x >> step1(p=dataset) >> step2(p=dataset): each input must exist before the step applied to it
            k = len(spec["nodes"])
            nodes = [
                {"k": "dataset", "name": "CHX", "args": {}, "cache": "nocache", "id": f"g{k}"},
                {"k": "dataset", "name": "CHP1", "args": {}, "cache": "nocache", "id": f"g{k + 1}"},
                {"k": "dataset", "name": "CHP2", "args": {}, "cache": "nocache", "id": f"g{k + 2}"},
                {"k": "apply", "src": f"g{k}", "fn": {"t": "step", "name": "chs1", "params": {"p": f"g{k + 1}"}}, "via": "rshift", "id": f"g{k + 3}"},
                {"k": "apply", "src": f"g{k + 3}", "fn": {"t": "step", "name": "chs2", "params": {"p": f"g{k + 2}"}}, "via": "rshift", "id": f"g{k + 4}"},
            ]
            if rng.random() < 0.5:
                nodes.append({"k": "apply", "src": f"g{k + 4}", "fn": {"t": "fn", "name": "chf3"}, "via": "rshift", "id": f"g{k + 5}"})
            spec["nodes"] += nodes
            spec["roots"] = spec["roots"] + [nodes[-1]["id"], f"g{k + 4}"]
        if rng.random() < 0.3:
            # a case-when whose FIRST case matches and whose later case has a condition backed by a dataset
            k = len(spec["nodes"]) + 10
            match = rng.choice(["a", 1, None])
            spec["nodes"] += [
                {"k": "opt", "key": "M", "default": {"t": "const", "v": match}, "id": f"h{k}"},
                {"k": "dataset", "name": "CONDP", "args": {}, "cache": rng.choice(["nocache", "default"]), "id": f"h{k + 1}"},
                {"k": "val", "v": 1, "id": f"h{k + 2}"},
                {"k": "dataset", "name": "LATERRES", "args": {}, "id": f"h{k + 3}"},
                {"k": "case", "dispatch": f"h{k}", "cases": [[{"t": "eq", "v": match}, f"h{k + 2}"], [{"t": "param", "n": f"h{k + 1}"}, f"h{k + 3}"]],
                 "default": rng.choice([None, f"h{k + 2}"]), "id": f"h{k + 4}"},
                {"k": "dataset", "name": "OVERCASE", "args": {"a": f"h{k + 4}"}, "id": f"h{k + 5}"},
            ]
            spec["roots"] = spec["roots"] + [f"h{k + 4}", f"h{k + 5}"]
        inner = [n["id"] for n in spec["nodes"] if n["k"] in ("coalesce", "switch", "case", "bind")]
        applies = [n["id"] for n in spec["nodes"] if n["k"] == "apply" and gen._fn_children(n["fn"])]
        spec["roots"] = list(dict.fromkeys(spec["roots"] + rng.sample(inner, min(len(inner), rng.randint(0, 2))) + rng.sample(applies, min(len(applies), 2))))
        spec = gen.prune(spec)
        ops = gen_history(rng, cfg, spec, n_ops=rng.randint(3, 12))
        return {"cfg": cfg, "spec": spec, "ops": ops}

    def spec_valid(self, spec):
        if any(n["k"] == "alloptions" for n in spec["nodes"]):
            return False
        return gen.spec_ok(spec)

    def run_case(self, case):
        res = Result()
        spec = case["spec"]
        universe = all_lazy_callables(spec)
        with global_state_guard():
            w = World(spec)
            if w.count("body") or w.count("factory") or w.log.seq:
                res.violate("stub-ran-during-construction", calls={f"{k}:{n}": c for (k, n), c in w.counts.items()})
                return res
            # composing / overloading / deriving / defining never evaluates
            with w.active():
                objs = list(w.prog.obj.values())
                ds = [o for o in objs if isinstance(o, labrea.dataset.Dataset)] if False else [o for o in objs if type(o).__name__ == "Dataset"]
                for o_ in objs[:4]:
                    _ = o_ >> (lambda x: x)
                    _ = o_.apply(repr)
                for d in ds[:3]:
                    _ = d.with_options({"A": 1})
                    _ = d.with_default_options({"S": {"X": 1}})
                if objs:
                    ns = {"__annotations__": {f"f{i}": object for i in range(min(3, len(objs)))}}
                    for i in range(min(3, len(objs))):
                        ns[f"f{i}"] = objs[i]
                    _ = datasetclass(type("DC", (), ns))
            if w.log.seq:
                res.violate("stub-ran-during-composition", calls={f"{k}:{n}": c for (k, n), c in w.counts.items()})
                return res
            armed_any = False
            for i, op in enumerate(case["ops"]):
                res.bump("ops")
                ref = World(spec, record=False).do(op)
                t = World(spec, record=False)
                sel = Selection(spec, t, op["o"])
                sel.walk(op["node"])
                forbidden = sorted(universe - sel.allowed)
                res.bump("armed_callables", len(forbidden))
                if forbidden:
                    armed_any = True
                for world, label in ((w, "warm"), (World(spec, record=False), "cold")):
                    world.armed = {key: "Exception" for key in forbidden}
                    n_before = len(world.fired)
                    out = world.do(op)
                    world.armed = {}
                    fired = world.fired[n_before:]
                    if fired:
                        res.violate("unselected-body-ran", op_index=i, world=label, node=op["node"], o=op["o"], ran=[list(a[1:3]) for a in fired],
                                    allowed=sorted(f"{k}:{n}" for k, n in sel.allowed))
                        break
                    if not out.same(ref):
                        res.violate("outcome-changed-by-arming-unselected-bodies", op_index=i, world=label, node=op["node"], o=op["o"],
                                    got=out.brief(), unarmed=ref.brief(), armed=[f"{k}:{n}" for k, n in forbidden])
                        break
                if res.violations:
                    break
                # >> : the input is produced before the step applied to it
                n = gen.node_by_id(spec, op["node"])
                if n["k"] == "apply":
                    # every apply along the chain of sources: the bodies beneath its source run before the bodies beneath
                    # the parameters of the step applied to it
                    cold = World(spec)
                    cold.do(op)
                    m = n
                    while m["k"] == "apply" and not res.violations:
                        if gen._fn_children(m["fn"]):
                            src_names = self._dataset_names(spec, [m["src"]])
                            par_names = self._dataset_names(spec, gen._fn_children(m["fn"]))
                            # producing the input includes running the steps of the applies beneath the source
                            # ... and what ALSO runs elsewhere in this evaluation (reachable from the root without passing through
                            # this apply: a later step's parameter, a sibling argument) has no place in this apply's order
                            elsewhere = self._dataset_names(spec, [op["node"]], without=m["id"]) if m["id"] != op["node"] else set()
                            src_names, par_names = src_names - elsewhere, par_names - elsewhere
                            src_steps = self._step_names(spec, m["src"]) - self._all_step_names(spec, gen._fn_children(m["fn"]))
                            a = [j for j, ev in enumerate(cold.log.events) if ev[0] == "call" and ((ev[2] == "body" and ev[3] in src_names - par_names) or (ev[2] == "step" and ev[3] in src_steps))]
                            b = [j for j, ev in enumerate(cold.log.events) if ev[0] == "call" and ev[2] == "body" and ev[3] in par_names - src_names]
                            if a and b:
                                res.bump("apply_order_checked")
                                if max(a) > min(b):
                                    res.violate("step-parameter-evaluated-before-source", op_index=i, node=m["id"], root=op["node"], o=op["o"])
                        m = gen.node_by_id(spec, m["src"])
                    if res.violations:
                        break
            res.stats["events"] = w.log.seq
            res.digest = w.log.digest()
            res.seen("history", (spec, [op["o"] for op in case["ops"]]))
            if armed_any:
                res.seen("history_with_armed_faults", (spec, [op["o"] for op in case["ops"]]))
            res.sample = self.sample_of(case)
        return res

    @staticmethod
    def _step_names(spec, nid):
        """Names of the step stubs of the applies along the source chain beneath a node (not through datasets)."""
        by = {n["id"]: n for n in spec["nodes"]}
        names = set()
        n = by[nid]
        while n["k"] == "apply":
            f = n["fn"]
            for g in ([f] if f["t"] != "pipeline" else f["steps"]):
                if g["t"] in ("fn", "step"):
                    names.add(g["name"])
            n = by[n["src"]]
        return names

    @staticmethod
    def _all_step_names(spec, starts):
        """Names of every step stub reachable beneath the given nodes (shared sub-expressions run there too)."""
        by = {n["id"]: n for n in spec["nodes"]}
        seen, names = set(), set()
        stack = list(starts)
        while stack:
            i = stack.pop()
            if i in seen:
                continue
            seen.add(i)
            n = by[i]
            if n["k"] == "apply":
                f = n["fn"]
                for g in ([f] if f["t"] != "pipeline" else f["steps"]):
                    if g["t"] in ("fn", "step"):
                        names.add(g["name"])
            stack.extend(gen.children(n))
        return names

    @staticmethod
    def _dataset_names(spec, starts, without=None):
        by = {n["id"]: n for n in spec["nodes"]}
        seen, names = set(), set()
        stack = list(starts)
        while stack:
            i = stack.pop()
            if i == without:
                continue
            if i in seen:
                continue
            seen.add(i)
            n = by[i]
            if n["k"] == "dataset":
                names.add(n["name"])
                for _, impl in n.get("overloads", []):
                    if "fn" in impl:
                        names.add(impl["fn"])
            stack.extend(gen.children(n))
        return names

    def signature(self, case, violation):
        if gen.scalar_at_section_prefix(case["spec"], [op["o"] for op in case["ops"] if "o" in op]):
            return "scalar-at-section-prefix"
        return None

"""C02 — memoization is effective: one body run per relevant option assignment; effects once per body run."""
import json

from .. import gen
from .. import universe as U
from ..core import Result
from ..histsim import HistoryProperty, family_root, gen_history
from ..world import World, global_state_guard


def owner_of(body_name):
    """Body stub name -> dataset name (overload implementations are named <D>_ov<i>)."""
    return body_name.split("_ov")[0]


EFFECT_ONLY_KEYS = ("E1", "E2")  # read by effects only (see gen_case)


def relevant_projection(spec, o, forced_leaves=()):
    """Canonical text of `o` restricted to what the program can possibly refer to.

    Top-level keys never mentioned by the program (nor reachable through template references from
    mentioned values) are dropped; top-level order is normalised; nested order is kept (it is part of
    the JSON value).  Leaf paths forced by the root's own pre-set options are dropped too.
    """
    tops = {p.split(".")[0] for p in gen.program_key_paths(spec)}
    changed = True
    while changed:
        changed = False
        for t in list(tops):
            if t in o:
                for p in [t] + [f"{t}.{q}" for q in U.all_paths(o[t])] if isinstance(o[t], (dict, list)) else [t]:
                    ok, v = U.lookup(p, o)
                    if ok and isinstance(v, str):
                        for ref in U.template_refs(v):
                            t2 = ref.split(".")[0]
                            if t2 not in tops:
                                tops.add(t2)
                                changed = True
    # (an effect's own option: its VALUE is irrelevant to the dataset's value, its presence is not -- validate() insists on it)
    proj = {k: ("§present" if k in EFFECT_ONLY_KEYS else o[k]) for k in sorted(o) if k in tops}
    if isinstance(proj.get("R"), list):
        # rows of a list of sections: the program refers to single rows ('R.1.N'); a row no key path and no templated value
        # points into is something "nothing in the graph refers to" (its PRESENCE stays: indices and length matter)
        reads = [p for p in gen.program_key_paths(spec) if p.split(".")[0] == "R"]
        for q in U.all_paths(o):
            v = U.lookup(q, o)[1]
            if isinstance(v, str):
                reads += [r for r in U.template_refs(v) if r.split(".")[0] == "R"]
        idx = set()
        for p in reads:
            seg = p.split(".")
            if len(seg) < 2 or not seg[1].isdigit():
                idx = None
                break
            idx.add(int(seg[1]))
        if idx is not None:
            proj["R"] = [row if j in idx else "§unread" for j, row in enumerate(proj["R"])]
    if forced_leaves:
        import copy

        proj = copy.deepcopy(proj)
        for p in forced_leaves:
            ok, v = U.lookup(p, proj)
            if ok and not isinstance(v, (dict, list)):
                U.del_path(proj, p)
                # an emptied section is not the same as an absent one: keep the shell
    return json.dumps(proj, separators=(",", ":"))


def _arg(frozen_kw, name):
    """Argument `name` out of a frozen keyword dictionary ('§d', (k, v), ...)."""
    for item in frozen_kw[1:]:
        if item[0] == name:
            return item[1]
    return None


def by_root(spec, nid):
    r = family_root(spec, nid)
    return next(n for n in spec["nodes"] if n["id"] == r)


class C02(HistoryProperty):
    ID = "C02"
    LEVEL = "exploration"
    TECHNIQUE = "deterministic simulation of seeded evaluation histories with repeats / irrelevant-key / permuted-order perturbations; body, effect and backend-call counters in harness stubs checked against the history"
    LEVEL_TEXT = (
        "Seeded search over (dataset DAG with diamonds, overloads, pre-sets, nocache nodes) x histories containing exact repeats, "
        "repeats with never-mentioned keys added/changed, permuted top-level order and changed values under keys the root forces; "
        "oracles: no cached body runs on an equivalent repeat; in programs whose nodes all see the caller's options a shared "
        "dependency runs once per evaluation; every backend store of a dataset with effects is preceded by exactly one run of each "
        "effect with the stored value, and no effect runs otherwise. Sampling, not proof."
    )
    LEVEL_NOTE = "Equivalence of dictionaries is decided syntactically (keys the program text or templated values can refer to), which under-approximates 'irrelevant' - the oracle can only demand fewer hits than the statement. Trusted: harness counters."
    DESIGN_REF = "3 C02"
    RULE = (
        "case = program spec (recording backends on every cached dataset) + history biased to repeat / never-key / permute "
        "mutations; distinct = hash of (spec, dictionaries); non-trivial = histories in which at least one equivalent repeat "
        "occurred and was checked"
    )
    ASSUMPTIONS = [
        "no AllOptions node (it refers to every key by construction), no LABREA.* switches, no faults",
        "nested key order is part of a JSON value (only top-level order is normalised)",
    ]
    STUBS = HistoryProperty.STUBS + ["RecordingCache: MemoryCache subclass that logs get/set/exists (real storage code path)"]
    QUICK = {"runs": 20000, "wall": 40}
    THOROUGH = {"runs": 400000, "wall": 480}
    NONTRIVIAL_MEASURE = "history_with_checked_repeat"

    def spec_valid(self, spec):
        # an option on an effect-only key (E1 / E2) is read by effects and by nothing else
        e_ids = {n["id"] for n in spec["nodes"] if n["k"] == "opt" and n["key"] in EFFECT_ONLY_KEYS}
        for n in spec["nodes"]:
            used = set(gen.children(n)) - set(n.get("effects_opt", []) if n["k"] == "dataset" else [])
            if used & e_ids:
                return False
        return super().spec_valid(spec)

    def _long_sweep_case(self, rng):
        """A long sweep: one small cached dataset evaluated for well over a thousand distinct assignments (a Map over a long
        list), then the same sweep again: every element of the second pass is a repeat."""
        n = rng.choice([1100, 1300])
        spec = {"nodes": [
            {"k": "opt", "key": "A", "id": "n0"},
            {"k": "dataset", "name": "SWEPT", "args": {"a": "n0"}, "cache": "recording", "id": "n1"},
            {"k": "val", "v": list(range(n)), "id": "n2"},
            {"k": "map", "target": "n1", "iterables": {"A": "n2"}, "values": True, "id": "n3"}], "roots": ["n3"]}
        ops = [{"op": "evaluate", "node": "n3", "o": {}, "mut": "sweep"}, {"op": "evaluate", "node": "n3", "o": {}, "mut": "repeat"}]
        return {"cfg": {}, "spec": spec, "ops": ops}

    def gen_case(self, rng, tier):
        if rng.random() < 0.002:
            return self._long_sweep_case(rng)
        cfg = gen.swarm_cfg(rng, off=("alloptions", "shape_change", "dangling"), on=("dsclass", "fapp"))
        cfg["posonly_params"] = rng.random() < 0.4  # dataset functions with positional-only parameters
        cfg["user_evaluatables"] = rng.random() < 0.4  # user-defined Evaluatable subclasses in the place of plain Options
        cfg["odd_returns"] = rng.random() < 0.3  # bodies returning a container that holds something uncopyable
        cfg["mutating_bodies"] = rng.random() < 0.4  # bodies that work in place on a section / list taken from the options
        if cfg["mutating_bodies"]:
            cfg["whole_section"] = cfg["lists"] = True
        spec = gen.prune(gen.gen_spec(rng, cfg))
        for n in spec["nodes"]:
            if n["k"] == "dataset" and n.get("cache", "default") == "default":
                n["cache"] = "recording"
        shared_leaf = None
        if rng.random() < 0.12:
            # ONE user-defined leaf object used twice: directly by a cached dataset, and as a branch of a switch elsewhere
            k0 = len(spec["nodes"])
            spec["nodes"] += [
                {"k": "opt", "key": "A", "default": {"t": "const", "v": 0}, "impl": "user", "id": f"u{k0}"},
                {"k": "dataset", "name": "ULEAF", "args": {"a": f"u{k0}"}, "cache": "recording", "id": f"u{k0 + 1}"},
                {"k": "val", "v": "other", "id": f"u{k0 + 2}"},
                {"k": "switch", "dispatch": "M", "lookup": [["a", f"u{k0}"]], "default": f"u{k0 + 2}", "id": f"u{k0 + 3}"},
                {"k": "dataset", "name": "USWITCH", "args": {"x": f"u{k0 + 3}"}, "cache": "recording", "id": f"u{k0 + 4}"},
            ]
            spec["roots"] = spec["roots"] + [f"u{k0 + 1}", f"u{k0 + 4}"]
            shared_leaf = (f"u{k0 + 1}", f"u{k0 + 4}")
        dg = U.DictGen(rng, cfg, no_list_keys=gen.hashable_required_keys(spec))
        dg.MUTATIONS = ["repeat"] * 4 + ["never"] * 3 + ["permute"] * 3 + ["change", "change", "delete", "add", "sibling", "fresh", "template", "rows", "rows"]
        ops = gen_history(rng, cfg, spec, dictgen=dg)
        if shared_leaf:
            o = dict(rng.choice(ops)["o"], M="a", A=rng.choice([1, 2]))
            at = rng.randrange(len(ops) + 1)
            ops[at:at] = [{"op": "evaluate", "node": shared_leaf[0], "o": o, "mut": "shared-leaf"}, {"op": "evaluate", "node": shared_leaf[1], "o": o, "mut": "shared-leaf"},
                          {"op": "evaluate", "node": shared_leaf[0], "o": o, "mut": "repeat"}]
        # validate() / keys() asked BEFORE an evaluation with the same dictionary: what they have to evaluate on the way (a
        # dispatch, a bind source) is stored like any other value, with its effects
        for k in range(len(ops) - 1, -1, -1):
            if rng.random() < 0.2:
                ops.insert(k, dict(ops[k], op=rng.choice(["validate", "keys", "validate"]), mut="asked-first"))
        # effects attached AFTER the first evaluations (third-party style: ds.add_effects(...)) must run from then on
        derived_from = {n["base"] for n in spec["nodes"] if n["k"] == "derive"}
        cands = [n["id"] for n in spec["nodes"] if n["k"] == "dataset" and n["id"] not in derived_from and n.get("cache") == "recording"]
        if cands and rng.random() < 0.35:
            for _ in range(rng.randint(1, 2)):
                ops.insert(rng.randrange(1, len(ops) + 1), {"op": "add_effects", "ds": rng.choice(cands), "n": 1})
        # ... and on ONE member of a family of derived datasets (with_options / with_default_options copy the list of
        # effects at derivation): the other members keep theirs.  The family members are evaluated as roots.
        fam = [n for n in spec["nodes"] if n["k"] == "derive" and by_root(spec, n["id"]).get("cache") == "recording"]
        if fam and ops and rng.random() < 0.4:
            d = rng.choice(fam)
            members = [d["id"], family_root(spec, d["id"])]
            spec["roots"] = list(dict.fromkeys(spec["roots"] + members))
            at = rng.randrange(1, len(ops) + 1)
            ops.insert(at, {"op": "add_effects", "ds": rng.choice(members), "n": 1})
            for k in range(at + 1, len(ops) + 1):
                if rng.random() < 0.5:
                    ops.insert(k, dict(ops[k - 2] if "o" in ops[k - 2] else ops[0], op="evaluate", node=rng.choice(members), mut="family"))
        # registrations of an alias that NO dictionary ever selects, made between evaluations: they change nothing about
        # any evaluation of this history, so equivalent repeats must still be served from the cache
        disp = [n["id"] for n in spec["nodes"] if n["k"] == "dataset" and n.get("dispatch") is not None and n.get("cache") == "recording"]
        if disp and rng.random() < 0.35:
            vals = [n["id"] for n in spec["nodes"] if n["k"] == "val"]
            for _ in range(rng.randint(1, 2)):
                impl = {"n": rng.choice(vals)} if vals else {"fn": f"unused_ov{rng.randrange(99)}", "args": {}}
                ops.insert(rng.randrange(1, len(ops) + 1), {"op": "register", "ds": rng.choice(disp), "alias": "alias-never-selected", "impl": impl})
        return {"cfg": cfg, "spec": spec, "ops": ops}

    def run_case(self, case):
        res = Result()
        spec = case["spec"]
        import copy as _copy

        nodes = _copy.deepcopy(spec["nodes"])  # private: the model's effect counts change with add_effects ops
        by_name = {n["name"]: n for n in nodes if n["k"] == "dataset"}
        by_id = {n["id"]: n for n in nodes}
        uniform = not any(
            n["k"] in ("withopts", "derive", "map") or (n["k"] == "dataset" and (n.get("options") or n.get("default_options")))
            for n in spec["nodes"]
        )
        prefixes_read = {n["key"] for n in spec["nodes"] if n["k"] == "opt"}

        def root_forced(nid):
            # leaves whose caller value cannot reach any reader below this root (forced on every path), and that no
            # dictionary of the history references through a template
            paths = gen.caller_irrelevant_paths(spec, nid)
            refs = set()
            for op in case["ops"]:
                if "o" not in op:
                    continue
                for p in U.all_paths(op["o"]):
                    v = U.lookup(p, op["o"])[1]
                    if isinstance(v, str):
                        refs.update(U.template_refs(v))
            return [p for p in paths if not any(r == p or r.startswith(p + ".") or p.startswith(r + ".") for r in refs)]

        def cached(name):
            n = by_name.get(owner_of(name))
            return n is not None and n.get("cache") != "nocache"

        with global_state_guard():
            w = World(spec)
            seen = set()
            checked_repeat = False
            spec_effect_keys = sorted({by_id[x]["key"] for n in nodes if n["k"] == "dataset" for x in n.get("effects_opt", []) if x in by_id})
            # effects of derived datasets: a copy of their origin's list, taken when they were derived (= program construction)
            member_effects = {n["id"]: by_id[family_root(spec, n["id"])].get("effects", 0) for n in nodes if n["k"] == "derive"}

            def accept_for(op):
                # a family of derived datasets stores under one cache name but each member runs its OWN effects
                accept = {}
                for d, cnt in member_effects.items():
                    root = by_id[family_root(spec, d)]
                    accept.setdefault(root["name"], {root.get("effects", 0)}).add(cnt)
                if op["node"] in member_effects:
                    accept[by_id[family_root(spec, op["node"])]["name"]] = {member_effects[op["node"]]}
                elif by_id[op["node"]]["k"] == "dataset" and by_id[op["node"]]["name"] in accept:
                    accept[by_id[op["node"]]["name"]] = {by_id[op["node"]].get("effects", 0)}
                return accept

            for i, op in enumerate(case["ops"]):
                if op["op"] == "register":
                    if op["ds"] in w.prog.obj and ("n" not in op["impl"] or op["impl"]["n"] in w.prog.obj):
                        w.do(op)
                        res.bump("unrelated_registrations")
                    continue
                if op["op"] == "add_effects":
                    if op["ds"] in w.prog.obj:
                        w.do(op)
                        n = by_id[op["ds"]]
                        if n["k"] == "derive":
                            member_effects[op["ds"]] = member_effects[op["ds"]] + op["n"]
                        else:
                            n["effects"] = n.get("effects", 0) + op["n"]  # the model's effect count (by_name shares the node)
                        res.bump("effects_added_late")
                    continue
                if op["op"] in ("validate", "keys"):
                    log_start = len(w.log.events)
                    w.do(op)
                    res.bump("validate_or_keys_ops")
                    v = self._check_effects(w, log_start, by_name, res, accept_for(op))
                    if v:
                        res.violate(v[0], op_index=i, node=op["node"], o=op["o"], during=op["op"], **v[1])
                        break
                    continue
                before = w.snapshot_counts()
                log_start = len(w.log.events)
                out = w.do(op)
                delta = w.diff_counts(before, w.counts)
                res.bump("ops")
                body_runs = {name: c for (kind, name), c in delta.items() if kind == "body"}
                cached_runs = {name: c for name, c in body_runs.items() if cached(name)}
                key = (op["node"], relevant_projection(spec, op["o"], root_forced(op["node"])))
                if any(k_ not in op["o"] for k_ in spec_effect_keys):
                    # an effect's own option is missing: datasets carrying that effect fail AFTER their body ran and store
                    # nothing, however often they are asked -- no memoization to speak of
                    res.bump("ops_with_an_effect_option_missing")
                    continue
                if key in seen:
                    res.bump("equivalent_repeats_checked")
                    checked_repeat = True
                    if cached_runs:
                        res.violate("recomputed-on-equivalent-repeat", op_index=i, node=op["node"], o=op["o"], bodies=cached_runs, mutation=op.get("mut"))
                        break
                if out.ok:
                    # (a failed evaluation stores nothing; with effects that can fail AFTER the body ran, a failure is no
                    #  reason to expect a hit later)
                    seen.add(key)
                if uniform:
                    res.bump("diamond_ops_checked")
                    twice = {name: c for name, c in cached_runs.items() if c > 1}
                    if twice:
                        res.violate("shared-dependency-ran-twice", op_index=i, node=op["node"], o=op["o"], bodies=twice)
                        break
                v = self._check_effects(w, log_start, by_name, res, accept_for(op), failed=not out.ok)
                if v:
                    res.violate(v[0], op_index=i, node=op["node"], o=op["o"], **v[1])
                    break
            res.stats["events"] = w.log.seq
            res.digest = w.log.digest()
            res.seen("history", (spec, [op.get("o") for op in case["ops"]]))
            if checked_repeat:
                res.seen("history_with_checked_repeat", (spec, [op.get("o") for op in case["ops"]]))
            res.sample = self.sample_of(case)
        return res

    @staticmethod
    def _check_effects(w, log_start, by_name, res, accept=None, failed=False):
        """Every store of D is preceded by one run of each of D's effects with the stored value; no other effect runs."""
        pending = {}  # dataset -> list of (effect index, value text)
        for ev in w.log.events[log_start:]:
            if ev[0] != "call":
                continue
            _, _, kind, name, _, kw = ev
            if kind == "effect":
                ds, idx = name.split("#")
                if not idx.isdigit():
                    continue  # an effect with an option parameter (D#o0): outside the per-store count
                pending.setdefault(ds, []).append((int(idx), repr(_arg(kw, "v"))))
            elif kind == "backend" and name.endswith(".set"):
                ds = name[: -len(".set")]
                n = by_name.get(ds)
                if n is None:
                    continue
                wants = (accept or {}).get(ds) or {n.get("effects", 0)}
                got = pending.pop(ds, [])
                res.bump("stores_checked")
                if not any([i for i, _ in got] == list(range(want)) for want in wants):
                    return "effects-not-once-per-store", {"dataset": ds, "effects_run": [i for i, _ in got], "expected": [list(range(want)) for want in sorted(wants)]}
                stored = repr(_arg(kw, "v"))
                for i, val in got:
                    if val != stored:
                        return "effect-saw-other-value", {"dataset": ds, "effect": i, "effect_value": val, "stored": stored}
        if failed:
            # (an effect that is an Evaluatable may fail -- its own option is missing -- after the plain ones ran: nothing is stored)
            return None
        for ds, got in pending.items():
            n = by_name.get(ds)
            if n is not None and n.get("cache") == "recording" and got:  # (only a recording backend shows its stores)
                return "effect-without-store", {"dataset": ds, "effects_run": [i for i, _ in got]}
        return None

"""C10 — validate, keys and evaluate agree about whether options suffice."""
from .. import gen
from .. import universe as U
from ..core import Result
from ..histsim import HistoryProperty, gen_history
from ..world import World, cause_chain, global_state_guard
from .c02 import owner_of


def selector_reachable_datasets(spec):
    """Names of datasets whose value may be needed to choose a branch (over-approximation):
    everything reachable from a selector position (switch/case/dataset dispatch, case condition
    parameters, bind source, Map iterables)."""
    by = {n["id"]: n for n in spec["nodes"]}
    starts = []
    for n in spec["nodes"]:
        k = n["k"]
        if k == "switch" and isinstance(n["dispatch"], dict):
            starts.append(n["dispatch"]["n"])
        elif k == "case":
            starts.append(n["dispatch"])
            starts.extend(p["n"] for p, _ in n["cases"] if p["t"] == "param")
        elif k == "bind":
            starts.append(n["src"])
        elif k == "map":
            starts.extend(n["iterables"].values())
        elif k == "dataset" and isinstance(n.get("dispatch"), dict):
            starts.append(n["dispatch"]["n"])
    seen = set()
    stack = list(starts)
    while stack:
        i = stack.pop()
        if i in seen or i not in by:
            continue
        seen.add(i)
        stack.extend(gen.children(by[i]))
    names = set()
    for i in seen:
        n = by[i]
        while n["k"] == "derive":
            n = by[n["base"]]
        if n["k"] == "dataset":
            names.add(n["name"])
    return names


def is_domain_failure(out):
    """Did the evaluation fail because a value lies outside its declared domain (C10's precondition)?"""
    if out.ok or out.exc is None:
        return False
    for e in cause_chain(out.exc):
        if type(e) is ValueError and ("does not satisfy" in str(e) or "not in domain" in str(e)):
            return True
        tb = e.__traceback__
        while tb is not None:  # any error raised by the domain check itself (e.g. `[1] in ""`)
            if tb.tb_frame.f_code.co_name == "_enforce_domain":
                return True
            tb = tb.tb_next
    return False


def missing_key_failure(out):
    return (not out.ok) and out.err.get("key") is not None or (not out.ok and out.err["root"].endswith("KeyNotFoundError"))


class C10(HistoryProperty):
    ID = "C10"
    LEVEL = "exploration"
    TECHNIQUE = "deterministic simulation of seeded histories interleaving validate / keys / evaluate on cold and warm worlds, with a fault plan making bodies partial; agreement oracle on success/failure classes plus body-run monitors during validate/keys"
    LEVEL_TEXT = (
        "Seeded search over (program, dictionary incl. every kind of sub-dictionary of a sufficient one) with the three calls "
        "interleaved on one long-lived instance (warm) and on cold twins. Total mode: validate, keys and evaluate succeed or fail "
        "together (ops whose failure is an out-of-domain value are outside the statement's precondition and skipped). Partial mode "
        "(bodies raise on a seed-chosen subset of calls): validate passed => evaluate does not end in a missing-key error. Monitor: "
        "validate/keys run only bodies of datasets reachable from a selector position. Sampling, not proof."
    )
    LEVEL_NOTE = "The 'needed to choose a branch' set is over-approximated statically (everything reachable from a dispatch / bind source / Map iterable / case condition), so the monitor can miss but not false-alarm."
    DESIGN_REF = "3 C10"
    RULE = (
        "case = program spec + history of (validate, keys, evaluate) triples on near-pair dictionaries; distinct = hash of (spec, "
        "dictionaries); non-trivial = histories containing both a triple that succeeds and a triple that fails"
    )
    ASSUMPTIONS = ["hashable dispatch values", "defaults lie inside their own declared domain"]
    QUICK = {"runs": 12000, "wall": 40}
    THOROUGH = {"runs": 300000, "wall": 480}
    NONTRIVIAL_MEASURE = "history_mixed_outcomes"

    def gen_case(self, rng, tier):
        cfg = gen.swarm_cfg(rng, on=("dsclass", "namespace", "fapp"))
        cfg["odd_constants"] = rng.random() < 0.4
        cfg["env_refs"] = rng.random() < 0.4  # Template texts referring to the process environment
        cfg["posonly_params"] = rng.random() < 0.4  # dataset functions with positional-only parameters
        cfg["preset_plain_section"] = rng.random() < 0.4  # pre-set / default options holding a plain value where callers have a section
        cfg["namespace_keys"] = True
        cfg["effect_params"] = rng.random() < 0.4  # effects that are Evaluatables reading options of their own
        spec = gen.gen_spec(rng, cfg)
        # bare combinators are targets too: a memoising dataset around them computes keys() for its fingerprint
        # during validate() and so hides a validate() that is weaker than keys()/evaluate()
        inner = [n["id"] for n in spec["nodes"] if n["k"] in ("map", "coalesce", "switch", "case", "bind", "template", "apply", "withopts", "list", "opt", "dsclass")]
        spec["roots"] = list(dict.fromkeys(spec["roots"] + rng.sample(inner, min(len(inner), rng.randint(0, 3)))))
        if rng.random() < 0.3:
            # an option whose DEFAULT is a dataset and that declares a domain / a type, read with its key absent most of the
            # time: validating it must validate the default, not evaluate it
            k = len(spec["nodes"])
            spec["nodes"] += [
                {"k": "dataset", "name": "GDEF", "args": {}, "id": f"v{k}"},
                {"k": "opt", "key": "Q1", "default": {"t": "expr", "n": f"v{k}"}, "domain": {"t": "pred", "v": [0, 1, "a"]}, "id": f"v{k + 1}"},
                {"k": "opt", "key": "Q2", "default": {"t": "expr", "n": f"v{k}"}, "type": rng.choice(["int", "str"]), "id": f"v{k + 2}"},
                {"k": "dataset", "name": "GUSE", "args": {"a": rng.choice([f"v{k + 1}", f"v{k + 2}"])}, "id": f"v{k + 3}"},
                {"k": "val", "v": "fallback", "id": f"v{k + 4}"},
                {"k": "coalesce", "members": [f"v{k + 3}", f"v{k + 4}"], "id": f"v{k + 5}"},
            ]
            spec["roots"] = spec["roots"] + [f"v{k + 3}", f"v{k + 5}", rng.choice([f"v{k + 1}", f"v{k + 2}"])]
        spec = gen.prune(spec)
        ops = gen_history(rng, cfg, spec, n_ops=rng.randint(3, 12))
        # sub-dictionaries of the generated ones: options are added key by key
        for op in list(ops):
            if rng.random() < 0.3:
                leaves = U.leaf_paths(op["o"])
                if leaves:
                    import copy

                    o2 = copy.deepcopy(op["o"])
                    for p in rng.sample(leaves, rng.randint(1, len(leaves))):
                        U.del_path(o2, p)
                    ops.append(dict(op, o=o2, mut="subdict"))
        eff_keys = [(n["id"], gen.node_by_id(spec, x)["key"]) for n in spec["nodes"] if n["k"] == "dataset" for x in n.get("effects_opt", [])
                    if not gen.node_by_id(spec, x).get("default")]
        if eff_keys and ops and rng.random() < 0.7:
            # near-pair around an option that only an EFFECT reads: first a lone validate() with it, then the triple without it
            import copy

            ds, key = rng.choice(eff_keys)
            base = copy.deepcopy(rng.choice(ops)["o"])
            with_key = copy.deepcopy(base)
            try:
                U.set_path(with_key, key, rng.choice([1, "a"]))
                U.del_path(base, key)
                node = rng.choice([ds] + spec["roots"])
                at = rng.randrange(len(ops) + 1)
                first_calls = rng.choice(["v", "v", "k", "vk", "e", "vke"])
                if rng.random() < 0.4:
                    # ... and the second visit switches caching off through the dictionary: an entry stored by the first
                    # visit must not make validate() pass where evaluate() recomputes (and runs the effect)
                    U.set_path(base, rng.choice(["LABREA.CACHE.DISABLED", "LABREA.CACHE.DISABLE"]), True)
                ops.insert(at, {"op": "evaluate", "node": node, "o": with_key, "calls": first_calls, "mut": "effect-key"})
                ops.insert(at + 1, {"op": "evaluate", "node": node, "o": base, "mut": "effect-key-removed"})
            except (TypeError, AttributeError, KeyError):
                pass
        if rng.random() < 0.25:
            # caching switched off (or explicitly on) through the dictionary on some visits
            for op in ops:
                if rng.random() < 0.3 and "LABREA" not in op["o"]:
                    import copy

                    op["o"] = copy.deepcopy(op["o"])
                    U.set_path(op["o"], rng.choice(["LABREA.CACHE.DISABLED", "LABREA.CACHE.DISABLE"]), rng.random() < 0.8)
        for op in ops:
            if "calls" in op:
                continue
            # not every visit asks all three questions (a validate() alone leaves other traces than a full triple)
            if rng.random() < 0.3:
                op["calls"] = "".join(rng.sample("vke", rng.randint(1, 2)))
        partial = rng.random() < 0.35
        faults = []
        if partial:
            names = [n["name"] for n in spec["nodes"] if n["k"] == "dataset"]
            for _ in range(rng.randint(1, 3)):
                faults.append([rng.randrange(len(ops)), "body", rng.choice(names), 0, rng.choice(["Exception", "KeyError", "ValueError", "LookupError"])])
        return {"cfg": cfg, "spec": spec, "ops": ops, "partial": partial, "faults": faults, "order": rng.choice(["vke", "kev", "evk", "vek"])}

    def run_case(self, case):
        res = Result()
        spec = case["spec"]
        allowed = selector_reachable_datasets(spec)
        with global_state_guard():
            # every op expands to three calls; faults are addressed by the expanded op index of the evaluate call
            w = World(spec)
            ok_seen = fail_seen = False
            stash = None
            for i, op in enumerate(case["ops"]):
                outs = {}
                cold_eval_ok = None
                for world_kind in ("cold", "warm"):
                    world = w if world_kind == "warm" else w.twin(record=False)
                    letters = op.get("calls") if (op.get("calls") and world_kind == "warm") else case["order"]
                    for letter in letters:
                        kind = {"v": "validate", "k": "keys", "e": "evaluate"}[letter]
                        for f in case.get("faults", []):
                            if f[0] == i and kind == "evaluate":
                                world.faults[(world.op_index + 1, f[1], f[2], f[3])] = f[4]
                        before = world.snapshot_counts()
                        out = world.do(dict(op, op=kind))
                        if out.exc is not None and world.fired:
                            res.fault("body_raises:" + case["faults"][0][4] if case.get("faults") else "body_raises")
                        delta = world.diff_counts(before, world.counts)
                        outs[(world_kind, kind)] = out
                        if kind in ("validate", "keys"):
                            ran = sorted({owner_of(name) for (k, name), c in delta.items() if k == "body"} - allowed)
                            if ran:
                                res.violate("body-ran-during-" + kind, op_index=i, world=world_kind, node=op["node"], o=op["o"], bodies=ran, allowed=sorted(allowed))
                                break
                    if res.violations:
                        break
                    if len(letters) < 3:
                        res.bump("partial_visits")
                        continue
                    v, k, e = (outs[(world_kind, x)] for x in ("validate", "keys", "evaluate"))
                    if world_kind == "cold":
                        cold_eval_ok = e.ok
                    res.bump("triples")
                    fired_here = bool(world.fired)
                    if any(is_domain_failure(x) for x in (v, k, e)):
                        res.bump("skipped_out_of_domain")
                        continue
                    if not fired_here:
                        # total mode for this triple
                        if not (v.ok == k.ok == e.ok):
                            viol = res.violate("validate-keys-evaluate-disagree", op_index=i, world=world_kind, node=op["node"], o=op["o"],
                                               validate=v.brief(), keys=k.brief(), evaluate=e.brief(), order=case["order"],
                                               evaluate_succeeds_on_a_cold_graph=cold_eval_ok if world_kind == "warm" else e.ok)
                            if self.signature(case, viol) == "effect-option-missing-keys-succeeds":
                                # open known finding: remember one instance and go on with the history
                                stash = stash or viol
                                res.violations.clear()
                                res.bump("known_effect_option_hits")
                                continue
                            break
                        ok_seen = ok_seen or e.ok
                        fail_seen = fail_seen or not e.ok
                    else:
                        res.bump("partial_triples")
                        from ..world import cause_chain
                        from labrea.exceptions import KeyNotFoundError as _KNF

                        # (anywhere in the chain: a body's own KeyError dressed up as a missing option counts as well)
                        if v.ok and (not e.ok) and any(isinstance(x, _KNF) for x in cause_chain(e.exc)):
                            res.violate("missing-option-after-validate-passed", op_index=i, world=world_kind, node=op["node"], o=op["o"],
                                        evaluate=e.brief(), fired=[list(a) for a in world.fired])
                            break
                        world.fired.clear()
                if res.violations:
                    break
            if stash is not None and not res.violations:
                res.violations.append(stash)
            res.stats["events"] = w.log.seq
            res.digest = w.log.digest()
            res.seen("history", (spec, case["ops"], case.get("faults")))
            if ok_seen and fail_seen:
                res.seen("history_mixed_outcomes", (spec, case["ops"]))
            res.sample = self.sample_of(case)
        return res

    def signature(self, case, violation):
        d = violation.get("detail", {})
        # (evaluate may even succeed: a sibling that forces the effect's option fills the shared cache first, and the hit
        #  skips the effect that validate() insists on)
        # ... but NOT where evaluate() succeeds only because of what the warm cache holds: then the stored value exists and
        # validate() has to pass as well (Cached.validate skips validation when the value already exists)
        only_warm = d.get("evaluate", [""])[0] == "ok" and d.get("evaluate_succeeds_on_a_cold_graph") is False
        if (violation["kind"] == "validate-keys-evaluate-disagree" and d.get("keys", [""])[0] == "ok" and d.get("validate", [""])[0] == "err" and not only_warm
                and any(n.get("effects_opt") for n in case["spec"]["nodes"] if n["k"] == "dataset")):
            return "effect-option-missing-keys-succeeds"
        if gen.scalar_at_section_prefix(case["spec"], [op["o"] for op in case["ops"] if "o" in op]):
            return "scalar-at-section-prefix"
        return None

    def shrink_candidates(self, case):
        for c in super().shrink_candidates(case):
            if len(c["ops"]) != len(case["ops"]):
                # fault addresses refer to op positions: keep only candidates whose faults still make sense
                c = dict(c, faults=[f for f in case.get("faults", []) if f[0] < len(c["ops"])])
            yield c
        for j in range(len(case.get("faults", []))):
            yield dict(case, faults=case["faults"][:j] + case["faults"][j + 1:])

"""C15 — threads: handler contexts are thread-local; inherit() copies the parent's handlers of that
moment; concurrent register / evaluate are safe.   Engine: thread-sim (labsim.sched)."""
import copy
import random

import labrea
import labrea.runtime as lrt
from labrea import Option, Value, dataset

from .. import gen
from .. import universe as U
from ..core import Property, Result
from ..rt import Log, crepr
from ..sched import Deadlock, HarnessTimeout, Scheduler, StepLimit, installed
from ..world import World, global_state_guard
from .c14 import NTYPES, SimRaise, _handler

SCENARIOS = ["ctx", "inherit", "register", "eval", "switchctx", "eval"]  # (eval twice: two sub-scenarios share it)


class ThreadScript:
    """C14-style interpreter for one simulated thread with its own stack model."""

    def __init__(self, tid, types, objs, holds, defaults, res, sched, base_holds=None):
        self.tid, self.types, self.objs, self.holds, self.defaults = tid, types, objs, holds, defaults
        self.res, self.sched = res, sched
        self.stack = []
        self.base_holds = base_holds or {}  # what serves the thread when its stack is empty (after inherit)
        self.timeline = [[None, dict(self.base_holds), -1, -1]]  # (runtime id, holds, seq at invoke, seq at return)
        self.observed = []

    def current_holds(self):
        return self.holds[self.stack[-1]] if self.stack else self.base_holds

    def expected(self, t):
        h = self.current_holds()
        if t in h:
            return h[t]
        return self.defaults.get(t, "TypeError")

    def observe(self, t):
        try:
            return self.types[t](0).run()
        except TypeError:
            return "TypeError"

    def probe(self, where):
        if self.res.violations:
            return
        for t in range(NTYPES):
            try:
                got = self.observe(t)
            except (Deadlock, StepLimit, HarnessTimeout):
                raise
            except Exception as e:  # noqa: BLE001
                self.res.violate("crash-on-request", thread=self.tid, where=where, type=t, error=f"{type(e).__name__}: {e}", stack=list(self.stack))
                return
            self.sched.stamp(("probe", where, t, got))
            self.res.bump("probes")
            want = self.expected(t)
            if got != want:
                self.res.violate("served-by-other-threads-context", thread=self.tid, where=where, type=t, got=got, want=want, stack=list(self.stack))
                return

    def run(self, ops, path=""):
        for i, op in enumerate(ops):
            if self.res.violations:
                return
            where = f"{self.tid}:{path}{i}:{op['op']}"
            self.sched.yield_point("op")
            kind = op["op"]
            if kind == "block":
                r = op["r"]
                # every transition is recorded at its INVOKE (return stamp pending = +inf) so that an observer
                # running between the physical switch and our bookkeeping still finds the state in the timeline
                ent = [r, dict(self.holds[r]), self.sched.stamp(("enter-invoke", r)), float("inf")]
                self.timeline.append(ent)
                below = (self.stack[-1] if self.stack else None, dict(self.current_holds()))
                ext = None
                try:
                    with self.objs[r]:
                        ent[3] = self.sched.stamp(("enter-return", r))
                        self.stack.append(r)
                        try:
                            self.probe(where + ":entered")
                            self.run(op["body"], f"{path}{i}.")
                        finally:
                            ext = [below[0], below[1], self.sched.stamp(("exit-invoke", r)), float("inf")]
                            self.timeline.append(ext)
                            self.stack.pop()
                except SimRaise as e:
                    if ext is not None:
                        ext[3] = self.sched.stamp(("exit-return", r))
                    e.k -= 1
                    if e.k > 0:
                        raise
                else:
                    ext[3] = self.sched.stamp(("exit-return", r))
                self.probe(where + ":left")
            elif kind == "run":
                self.probe(where)
            elif kind == "raise":
                raise SimRaise(op["k"])
            elif kind == "derive":
                # derive from the thread's own current runtime, inside the simulation
                over = {self.types[int(t)]: _handler(tag) for t, tag in op["overrides"].items()}
                self.objs[op["r"]] = lrt.handle(over)
                self.holds[op["r"]] = {**self.current_holds(), **{int(t): tag for t, tag in op["overrides"].items()}}
                self.probe(where)
        return


def gen_script(rng, pool, depth=0, budget=None, prefix="L"):
    budget = budget if budget is not None else [rng.randint(2, 7)]
    ops = []
    while budget[0] > 0:
        budget[0] -= 1
        x = rng.random()
        if x < 0.45 and depth < 3:
            ops.append({"op": "block", "r": rng.choice(pool), "body": gen_script(rng, pool, depth + 1, budget, prefix)})
        elif x < 0.7:
            ops.append({"op": "run"})
        elif x < 0.8 and depth > 0:
            ops.append({"op": "raise", "k": rng.randint(1, depth)})
            break
        elif depth > 0 and rng.random() < 0.4:
            break
    return ops


class C15(Property):
    ID = "C15"
    LEVEL = "exploration"
    ENGINE = "thread-sim"
    TECHNIQUE = "deterministic simulation of 2-3 real threads under a seeded baton scheduler (pre-emption at line trace events inside labrea, at every access to labrea's shared mutable fields and at simulated-lock operations; random, PCT and depth-1 sweep strategies); per-thread stack models and interval-linearizability oracles; schedules recorded, minimised and replayed"
    LEVEL_TEXT = (
        "Seeded search over schedules x short histories in four scenarios: ctx (threads enter/leave blocks over a SHARED pool of runtime "
        "objects; every request a thread issues must be served according to that thread's own stack), inherit (a worker calls "
        "inherit(parent) while the parent enters/leaves blocks; the worker's handlers must equal the parent's at some instant inside "
        "the inherit call's [invoke, return] interval and stay constant afterwards), register (threads register distinct and colliding "
        "aliases on a shared dataset while another evaluates; each evaluation returns what some table state inside its interval "
        "prescribes and afterwards every alias resolves to a registered implementation), eval (threads evaluate one cached graph with "
        "equal / near-pair options; each result equals the cold twin for its own options). A deadlock (no runnable thread) is a "
        "violation. Sampling of interleavings, not exhaustive enumeration."
    )
    LEVEL_NOTE = "Pre-emption granularity: source lines plus every read/write of the shared mutable fields (Overloaded.lookup, Runtime.handlers/previous, Dataset attributes, MemoryCache._cache, the module tables); CPython 3.12.1's per-opcode tracing crashes under thread switching and is not used; races inside one C-level dict operation are out of reach. All locks reachable from labrea modules are simulated; user stubs and the harness are never pre-empted."
    DESIGN_REF = "3 C15, 2.7"
    RULE = (
        "case = scenario + per-thread scripts + scheduler strategy/seed (or explicit schedule of context switches) + granularity; "
        "distinct = hash of the realised context-switch sequence; non-trivial = runs whose realised schedule contains >= 2 "
        "pre-emptions inside labrea code"
    )
    ASSUMPTIONS = ["the GIL makes single bytecodes atomic", "no default handler is (re)registered while threads run"]
    REAL = ["labrea/* (unmodified) executed by real threading.Thread objects"]
    STUBS = ["threading.Lock objects reachable from labrea modules (SimLock)", "the choice of which thread runs (seeded scheduler)", "user callables", "request types and handlers"]
    QUICK = {"runs": 5000, "wall": 80}
    THOROUGH = {"runs": 400000, "wall": 540}
    NONTRIVIAL_MEASURE = "interleaving_with_preemptions"

    # ------------------------------------------------------------------ generation
    def gen_case(self, rng, tier):
        scenario = rng.choice(SCENARIOS)
        nthreads = rng.choice([2, 2, 3])
        gran = "shared" if rng.random() < 0.5 else "line"
        x = rng.random()
        if gran == "shared" and x < 0.35:
            strat = {"kind": "race", "p_set": rng.choice([0.3, 0.6]), "p_get": rng.choice([0.05, 0.2]), "p_line": rng.choice([0.01, 0.04])}
        elif x < 0.45:
            strat = {"kind": "random", "p": rng.choice([0.05, 0.2, 0.5])}
        elif x < 0.8:
            strat = {"kind": "pct", "depth": rng.choice([1, 2, 3]), "horizon": rng.choice([100, 300, 900, 3000])}
        else:
            strat = {"kind": "sweep", "at": rng.randrange(1, 600), "to": f"T{rng.randrange(nthreads)}", "first": f"T{rng.randrange(nthreads)}"}
        case = {"scenario": scenario, "nthreads": nthreads, "granularity": gran, "strategy": strat, "sched_seed": rng.getrandbits(48)}
        if rng.random() < (0.015 if tier == "quick" else 0.04):
            case["systematic"] = True  # every depth-1 pre-emption (up to a stride) instead of one sampled schedule
            case["systematic_first"] = f"T{rng.randrange(nthreads)}"
        getattr(self, "_gen_" + scenario)(rng, case)
        return case

    def _gen_pool(self, rng):
        pool = []
        for i in range(rng.randint(2, 4)):
            pool.append({"r": f"R{i}", "handlers": {str(t): f"h{i}_{t}" for t in rng.sample(range(NTYPES), rng.randint(1, 3))}})
        return pool

    def _gen_ctx(self, rng, case):
        case["pool"] = self._gen_pool(rng)
        case["pre_defaults"] = [t for t in range(NTYPES) if rng.random() < 0.6]
        names = [p["r"] for p in case["pool"]]
        case["scripts"] = {f"T{i}": gen_script(rng, names) for i in range(case["nthreads"])}

    def _gen_inherit(self, rng, case):
        case["nthreads"] = 2 if rng.random() < 0.7 else 3
        case["pool"] = self._gen_pool(rng)
        case["pre_defaults"] = [t for t in range(NTYPES) if rng.random() < 0.6]
        names = [p["r"] for p in case["pool"]]
        case["scripts"] = {"T0": gen_script(rng, names, budget=[rng.randint(3, 8)])}
        for i in range(1, case["nthreads"]):
            case["scripts"][f"T{i}"] = {"before": rng.randint(0, 2), "after": gen_script(rng, names, budget=[rng.randint(0, 3)]),
                                        # a pooled worker: it may already have a runtime of its own (it issued requests) when it inherits,
                                        # and it may inherit again later, from a thread that never touched labrea
                                        "probe_before": rng.random() < 0.4, "second": rng.choice([None, None, "pristine"])}

    def _gen_register(self, rng, case):
        # a lost update needs two writers, and a pre-emption between the read and the write of the table
        case["nthreads"] = 3
        if rng.random() < 0.6:
            case["granularity"] = "shared"
        # registrations made BEFORE the threads start (a reader that walks the table has something to walk while a writer adds)
        # (in half of the runs none: the very FIRST registration on an object is a moment of its own)
        case["pre_regs"] = rng.sample(["p", "q", "r"], rng.choice([0, 0, 0, 1, 2, 3]))
        aliases = ["a", "b", "c", "d", "e"]
        regs = {}
        for i in range(case["nthreads"] - 1):
            mine = rng.sample(aliases, rng.randint(1, 3))
            # "overload-failing": one decorator call with a list of aliases whose SECOND member is unhashable -- it raises
            # TypeError half-way; what it leaves behind of its own aliases is its business, the others' registrations are not
            regs[f"T{i}"] = [{"alias": a, "how": rng.choice(["register", "overload", "overload", "overload-failing"]), "tag": f"{a}@T{i}"} for a in mine]
        case["regs"] = regs
        if rng.random() < 0.3:
            # (one thread implements the interface, the other registers on the members directly: two routes to one table)
            case["iface"] = True
            for r_ in regs["T0"]:
                r_["how"] = "implement"
            for r_ in regs["T1"]:
                if r_["how"] == "overload-failing" or rng.random() < 0.3:
                    r_["how"] = rng.choice(["register", "overload", "implement"])
        case["evals"] = [rng.choice(aliases + ["zz"]) for _ in range(rng.randint(2, 5))]
        case["n_datasets"] = rng.choice([1, 1, 2])

    def _gen_eval(self, rng, case):
        if rng.random() < 0.5:
            # hot spot: every thread hammers ONE cached dataset with two alternating assignments (warm hits and misses of
            # different keys interleave on the same cache object)
            spec = {"nodes": [{"k": "opt", "key": "A", "id": "n0"}, {"k": "dataset", "name": "HOT", "args": {"a": "n0"}, "id": "n1"},
                              {"k": "dataset", "name": "OVERHOT", "args": {"x": "n1"}, "id": "n2"}], "roots": ["n1", "n2"]}
            vals = rng.sample([0, 1, 2, "a", "b", True, None], 2)
            case["spec"] = spec
            case["ops_by_thread"] = {f"T{i}": [{"op": "evaluate", "node": rng.choice(["n1", "n1", "n2"]), "o": {"A": rng.choice(vals)}} for _ in range(rng.randint(2, 4))]
                                     for i in range(case["nthreads"])}
            return
        cfg = gen.swarm_cfg(rng, off=("shape_change", "nocache", "effects"))
        cfg["n_internal"] = rng.randint(2, 5)
        spec = gen.prune(gen.gen_spec(rng, cfg))
        dg = U.DictGen(rng, cfg, no_list_keys=gen.hashable_required_keys(spec))
        base = dg.fresh()
        per = {}
        for i in range(case["nthreads"]):
            ops = []
            o = base
            for _ in range(rng.randint(1, 3)):
                o, _m = dg.mutate(o)
                ops.append({"op": "evaluate", "node": rng.choice(spec["roots"]), "o": copy.deepcopy(o)})
            per[f"T{i}"] = ops
        case["spec"], case["ops_by_thread"] = spec, per

    def _gen_switchctx(self, rng, case):
        self._gen_eval(rng, case)
        for n in case["spec"]["nodes"]:
            if n["k"] == "dataset":
                n["cache"] = "recording"
        # per thread and op: evaluate inside labrea.cache.disabled() / labrea.logging.disabled() or plainly
        case["ctx_by_thread"] = {tid: [rng.choice(["plain", "cache", "cache", "logging", "both"]) for _ in ops] for tid, ops in case["ops_by_thread"].items()}

    # ------------------------------------------------------------------ execution
    def run_case(self, case):
        if case.get("systematic") and "schedule" not in case:
            return self._run_systematic(case)
        return self._run_once(case)

    def _run_systematic(self, case):
        """Depth-1 systematic sweep: a run without pre-emption gives the number N of yield points of the first thread's
        solo prefix; then one run per (yield index i, other thread j): pre-empt at i to j, run to completion otherwise."""
        first = case.get("systematic_first", "T0")  # whose solo prefix is swept (seeded per case: any thread)
        base = self._run_once(dict(case, strategy={"kind": "sweep", "at": -1, "to": "T0", "first": first}))
        if base.violations:
            return base
        n = min(base.stats.get("yield_points", 0), 300)
        stride = max(1, n // 60)
        total = base
        for at in range(1, n, stride):
            for j in range(case["nthreads"]):
                if f"T{j}" == first:
                    continue
                r = self._run_once(dict(case, strategy={"kind": "sweep", "at": at, "to": f"T{j}", "first": first}))
                for k, v in r.stats.items():
                    total.stats[k] = total.stats.get(k, 0) + v
                for k, v in r.faults.items():
                    total.faults[k] = total.faults.get(k, 0) + v
                for k, v in r.distinct.items():
                    total.distinct.setdefault(k, []).extend(v)
                if r.violations:
                    total.violations = r.violations
                    total.digest = r.digest
                    return total
        total.bump("systematic_depth1_sweeps")
        return total

    def _run_once(self, case):
        res = Result()
        rng = random.Random(case["sched_seed"])
        sched = Scheduler(rng, case["strategy"], case["granularity"], schedule=case.get("schedule"))
        try:
            with global_state_guard():
                with installed(sched):
                    finish = getattr(self, "_run_" + case["scenario"])(case, res, sched)
                    sched.run()
                    if isinstance(sched.violation, StepLimit):
                        res.bump("runs_cut_at_step_limit")  # a budget, not a verdict
                        res.violations.clear()
                        return res
                    if sched.violation is not None and not res.violations:
                        res.violate("deadlock", error=str(sched.violation))
                    for st in sched.threads.values():
                        if st.error is not None and not res.violations:
                            res.violate("thread-crashed", thread=st.tid, error=f"{type(st.error).__name__}: {st.error}")
                    if not res.violations:
                        finish()
        except HarnessTimeout:
            raise
        inside = sum(1 for (step, tid) in sched.switches[1:])
        res.stats["events"] = sched.seq
        res.bump("yield_points", sched.steps)
        res.bump("context_switches", len(sched.switches))
        res.bump("scenario:" + case["scenario"])
        res.bump("granularity:" + case["granularity"])
        res.bump("strategy:" + case["strategy"]["kind"])
        for fn in ("__enter__", "__exit__", "register", "inherit", "current_runtime", "evaluate", "_get_lock", "get", "set", "exists"):
            if sched.yields_in.get(fn):
                res.bump("yield_points_in:" + fn, sched.yields_in[fn])
        res.fault("preemption", max(0, inside))
        import hashlib

        res.digest = hashlib.sha256(repr((sched.events, sched.switches)).encode()).hexdigest()
        res.seen("interleaving", sched.switches)
        if inside >= 2:
            res.seen("interleaving_with_preemptions", sched.switches)
        res.sample = {k: v for k, v in case.items() if k not in ("spec",)}
        res.sample["realised_switches"] = len(sched.switches)
        if res.violations:
            res.violations[0]["detail"]["schedule"] = [list(s) for s in sched.switches]
        return res

    # -- scenario: ctx ---------------------------------------------------------------------------
    def _setup_runtime_world(self, case):
        types = [type(f"T{t}", (lrt.Request,), {"__init__": lambda self, k=0: setattr(self, "k", k)}) for t in range(NTYPES)]
        defaults = {}
        for t in case["pre_defaults"]:
            lrt.handle_by_default(types[t], _handler(f"d{t}"))
            defaults[t] = f"d{t}"
        objs, holds = {}, {}
        for p in case["pool"]:
            objs[p["r"]] = lrt.Runtime({types[int(t)]: _handler(tag) for t, tag in p["handlers"].items()})
            holds[p["r"]] = {int(t): tag for t, tag in p["handlers"].items()}
        return types, defaults, objs, holds

    def _run_ctx(self, case, res, sched):
        types, defaults, objs, holds = self._setup_runtime_world(case)
        scripts = {}
        for tid, ops in case["scripts"].items():
            ts = ThreadScript(tid, types, objs, holds, defaults, res, sched)
            scripts[tid] = ts

            def body(ts=ts, ops=ops):
                ts.probe(ts.tid + ":start")
                try:
                    ts.run(ops)
                except SimRaise:
                    pass
                ts.probe(ts.tid + ":end")

            sched.spawn(tid, body)
        return lambda: None

    # -- scenario: inherit -----------------------------------------------------------------------
    def _run_inherit(self, case, res, sched):
        types, defaults, objs, holds = self._setup_runtime_world(case)
        parent = ThreadScript("T0", types, objs, holds, defaults, res, sched)

        def pbody():
            parent.probe("T0:start")
            try:
                parent.run(case["scripts"]["T0"])
            except SimRaise:
                pass
            parent.probe("T0:end")

        pst = sched.spawn("T0", pbody)
        import threading as _threading

        pristine = _threading.Thread(name="PRISTINE")  # never started, never touched labrea
        for tid, spec in case["scripts"].items():
            if tid == "T0":
                continue
            ws = ThreadScript(tid, types, objs, holds, defaults, res, sched)

            def wbody(ws=ws, spec=spec):
                for _ in range(spec["before"]):
                    sched.yield_point("op")
                if spec.get("probe_before"):
                    ws.probe(ws.tid + ":before-inherit")  # served by defaults; gives the worker a runtime of its own
                    res.bump("inherit_after_own_requests")
                c = sched.stamp(("inherit-invoke",))
                lrt.inherit(pst.thread)
                d = sched.stamp(("inherit-return",))
                got = tuple(ws.observe(t) for t in range(NTYPES))
                # states of the parent that may have been current at some instant in [c, d]
                tl = parent.timeline
                ok_states = []
                for k, (rid, h, a, b) in enumerate(tl):
                    nxt_b = tl[k + 1][3] if k + 1 < len(tl) else float("inf")
                    # state k becomes current somewhere in [a, b] and stops being current somewhere in [a', b'] of the next
                    # transition; the parent's timeline may still grow after d — transitions not yet recorded start after d
                    if a <= d and nxt_b >= c:
                        ok_states.append(h)
                match = None
                for h in ok_states:
                    want = tuple(h.get(t, defaults.get(t, "TypeError")) for t in range(NTYPES))
                    if want == got:
                        match = h
                        break
                res.bump("inherit_calls")
                if match is None:
                    res.violate("inherit-did-not-copy-parents-handlers", thread=ws.tid, got=list(got), interval=[c, d],
                                acceptable=[[h.get(t, defaults.get(t, "TypeError")) for t in range(NTYPES)] for h in ok_states],
                                parent_timeline=[[rid, a, b] for rid, _, a, b in tl])
                    return
                ws.base_holds = dict(match)
                ws.probe(ws.tid + ":after-inherit")
                try:
                    ws.run(spec["after"])
                except SimRaise:
                    pass
                ws.probe(ws.tid + ":end")  # constant afterwards, whatever the parent does
                if spec.get("second") == "pristine" and not res.violations:
                    # a second inherit, from a thread object that never used labrea: the worker gets the defaults
                    lrt.inherit(pristine)
                    ws.base_holds = {}
                    ws.stack = []
                    res.bump("second_inherit_from_pristine_thread")
                    ws.probe(ws.tid + ":after-second-inherit")

            sched.spawn(tid, wbody)
        return lambda: None

    # -- scenario: register ----------------------------------------------------------------------
    def _run_register(self, case, res, sched):
        def mk(name):
            def body(m=Option("M", "zz")):
                return ("default", name)

            body.__name__ = name
            return dataset.nocache(body, dispatch="M")

        datasets = [mk(f"DS{i}") for i in range(case["n_datasets"])]
        iface = None
        if case.get("iface"):
            # the datasets are the members of an INTERFACE: an implementation class registers all of them at once, through
            # another route than overload()/register() on a member
            from labrea import interface

            iface = interface("M")(type("IFACE", (), {f"m{i}": staticmethod(ds) for i, ds in enumerate(datasets)}))
            datasets = [getattr(iface, f"m{i}") for i in range(len(datasets))]
        for alias in case.get("pre_regs", []):
            for ds in datasets:
                ds.register(alias, Value(("impl", alias + "@pre")))
        reg_iv = {}  # alias -> list of (invoke, return, tag)
        maybe_iv = {}  # the same for registrations that failed half-way (their own alias may or may not be registered)
        final = {}

        for tid, regs in case["regs"].items():
            def rbody(tid=tid, regs=regs):
                for r in regs:
                    sched.yield_point("op")
                    a = sched.stamp(("register-invoke", r["alias"], r["tag"]))
                    entry = [a, float("inf"), r["tag"]]
                    (maybe_iv if r["how"] == "overload-failing" else reg_iv).setdefault(r["alias"], []).append(entry)
                    if r["how"] == "implement" and iface is not None:
                        iface.implementation(r["alias"])(type("IMPL_" + r["tag"].replace("@", "_"), (), {f"m{i}": ("impl", r["tag"]) for i in range(len(datasets))}))
                        entry[1] = sched.stamp(("register-return", r["alias"], r["tag"]))
                        continue
                    for ds in datasets:
                        if r["how"] == "register":
                            ds.register(r["alias"], Value(("impl", r["tag"])))
                        elif r["how"] == "overload-failing":
                            def impl(tag=r["tag"]):
                                return ("impl", tag)

                            impl.__name__ = "impl_" + r["tag"].replace("@", "_")
                            try:
                                ds.overload([r["alias"], ["unhashable", "alias"]])(dataset.nocache(impl))
                            except TypeError:
                                res.bump("registrations_failing_half_way")
                        else:
                            def impl(tag=r["tag"]):
                                return ("impl", tag)

                            impl.__name__ = "impl_" + r["tag"].replace("@", "_")
                            ds.overload(r["alias"])(dataset.nocache(impl))
                    entry[1] = sched.stamp(("register-return", r["alias"], r["tag"]))

            sched.spawn(tid, rbody)

        etid = f"T{case['nthreads'] - 1}"

        def ebody():
            for alias in case["evals"]:
                sched.yield_point("op")
                for ds in datasets:
                    c = sched.stamp(("eval-invoke", alias))
                    try:
                        got = ds({"M": alias})
                    except (Deadlock, StepLimit, HarnessTimeout):
                        raise
                    except Exception as e:  # noqa: BLE001
                        res.violate("evaluation-failed-during-registration", alias=alias, error=f"{type(e).__name__}: {e}")
                        return
                    d = sched.stamp(("eval-return", alias, crepr(got)))
                    res.bump("concurrent_evaluations")
                    ok = []
                    ivs = reg_iv.get(alias, [])
                    # default is acceptable unless some registration of this alias had already returned before c
                    if not any(b < c for a, b, _ in ivs):
                        ok.append(("default", ds.__name__))
                    ok.extend(("impl", tag) for a, b, tag in ivs if a <= d)
                    ok.extend(("impl", tag) for a, b, tag in maybe_iv.get(alias, []) if a <= d)
                    if got not in ok:
                        res.violate("evaluation-saw-no-consistent-table", alias=alias, got=crepr(got), acceptable=[crepr(x) for x in ok], interval=[c, d])
                        return

        sched.spawn(etid, ebody)

        def finish():
            # afterwards: every alias registered by anyone resolves to (one of) its registered implementation(s)
            for alias, ivs in reg_iv.items():
                for ds in datasets:
                    got = ds({"M": alias})
                    if got not in [("impl", tag) for _, _, tag in ivs + maybe_iv.get(alias, [])]:
                        res.violate("registered-overload-lost", alias=alias, dataset=ds.__name__, got=crepr(got), registered=[t for _, _, t in ivs],
                                    table=sorted(map(str, ds.overloads.lookup)))
                        return
                    res.bump("final_aliases_checked")

        return finish

    # -- scenario: eval --------------------------------------------------------------------------
    def _run_eval(self, case, res, sched):
        spec = case["spec"]
        w = World(spec)
        expected = {}
        for tid, ops in case["ops_by_thread"].items():
            for j, op in enumerate(ops):
                expected[(tid, j)] = World(spec, record=False).do(op)
        ctx = w.active()
        ctx.__enter__()

        for tid, ops in case["ops_by_thread"].items():
            def body(tid=tid, ops=ops):
                for j, op in enumerate(ops):
                    sched.yield_point("op")
                    sched.stamp(("eval-invoke", tid, j))
                    out = w._eval_op("evaluate", op)
                    sched.stamp(("eval-return", tid, j, out.brief()))
                    res.bump("concurrent_evaluations")
                    if not out.same(expected[(tid, j)]):
                        res.violate("evaluation-returned-value-of-other-options", thread=tid, op_index=j, node=op["node"], o=op["o"],
                                    got=out.brief(), cold=expected[(tid, j)].brief())
                        return

            sched.spawn(tid, body)

        def finish():
            ctx.__exit__(None, None, None)

        return finish

    # -- scenario: switchctx (labrea's own derived runtimes are thread-local too) ---------------------
    def _run_switchctx(self, case, res, sched):
        import contextlib

        import labrea.cache
        import labrea.logging

        spec = case["spec"]
        w = World(spec)
        w.by_thread = {}
        expected = {(tid, j): World(spec, record=False).do(op) for tid, ops in case["ops_by_thread"].items() for j, op in enumerate(ops)}
        ctx = w.active()
        ctx.__enter__()
        windows = []  # (thread, backend calls of that thread before, after) for ops run with caching disabled

        def backend_calls(tid):
            return sum(c for (t, kind, _), c in w.by_thread.items() if t == tid and kind == "backend")

        for tid, ops in case["ops_by_thread"].items():
            def body(tid=tid, ops=ops):
                for j, op in enumerate(ops):
                    sched.yield_point("op")
                    mode = case["ctx_by_thread"][tid][j]
                    with contextlib.ExitStack() as st:
                        if mode in ("cache", "both"):
                            st.enter_context(labrea.cache.disabled())
                        if mode in ("logging", "both"):
                            st.enter_context(labrea.logging.disabled())
                        before = backend_calls(tid)
                        out = w._eval_op("evaluate", op)
                        after = backend_calls(tid)
                    res.bump("concurrent_evaluations")
                    if mode in ("cache", "both"):
                        res.bump("evaluations_with_cache_disabled_in_one_thread")
                        if after != before:
                            res.violate("cache-used-inside-this-threads-disabled-block", thread=tid, op_index=j, node=op["node"], o=op["o"], backend_calls=after - before)
                            return
                    if not out.same(expected[(tid, j)]):
                        res.violate("evaluation-returned-value-of-other-options", thread=tid, op_index=j, node=op["node"], o=op["o"], got=out.brief(), cold=expected[(tid, j)].brief(), mode=mode)
                        return

            sched.spawn(tid, body)

        def alone(tid):
            """Body runs of this thread's script executed alone, sequentially, on a fresh world."""
            a = World(spec, record=False)
            with a.active():
                for j, op in enumerate(case["ops_by_thread"][tid]):
                    mode = case["ctx_by_thread"][tid][j]
                    with contextlib.ExitStack() as st:
                        if mode in ("cache", "both"):
                            st.enter_context(labrea.cache.disabled())
                        if mode in ("logging", "both"):
                            st.enter_context(labrea.logging.disabled())
                        a._eval_op("evaluate", op)
            return a.count("body")

        def finish():
            ctx.__exit__(None, None, None)
            # other threads can only ADD cache entries: a thread never runs more bodies than when its script runs alone
            # (it would if another thread's cache.disabled() block leaked into it)
            for tid in case["ops_by_thread"]:
                mine = sum(c for (t, kind, _), c in w.by_thread.items() if t == tid and kind == "body")
                bound = alone(tid)
                res.bump("thread_body_bounds_checked")
                if mine > bound:
                    res.violate("thread-recomputed-more-than-alone", thread=tid, body_runs=mine, alone=bound, modes=case["ctx_by_thread"][tid])
                    return

        return finish

    # ------------------------------------------------------------------ shrinking
    def shrink_candidates(self, case):
        # 1. pin the realised schedule
        if "schedule" not in case:
            res = self.run_case(case)
            if res.violations and "schedule" in res.violations[0]["detail"]:
                yield dict(case, schedule=res.violations[0]["detail"]["schedule"], strategy={"kind": "replay"})
            return
        sch = case["schedule"]
        # 2. remove pre-emptions (chunks, then singles)
        size = len(sch) // 2
        while size >= 1:
            for start in range(1, len(sch), size):
                cand = sch[:start] + sch[start + size:]
                if len(cand) < len(sch):
                    yield dict(case, schedule=cand)
            size //= 2
        # 3. simplify scripts
        sc = case["scenario"]
        if sc in ("ctx", "inherit"):
            for tid, ops in case["scripts"].items():
                tree = ops if isinstance(ops, list) else ops["after"]
                for new in _tree_variants(tree):
                    scripts = dict(case["scripts"])
                    scripts[tid] = new if isinstance(ops, list) else dict(ops, after=new)
                    yield dict(case, scripts=scripts)
        elif sc == "register":
            for tid, regs in case["regs"].items():
                for i in range(len(regs)):
                    if sum(len(r) for r in case["regs"].values()) > 1:
                        yield dict(case, regs={**case["regs"], tid: regs[:i] + regs[i + 1:]})
            for i in range(len(case["evals"])):
                if len(case["evals"]) > 1:
                    yield dict(case, evals=case["evals"][:i] + case["evals"][i + 1:])
            if case["n_datasets"] > 1:
                yield dict(case, n_datasets=1)
        elif sc in ("eval", "switchctx"):
            for tid, ops in case["ops_by_thread"].items():
                for i in range(len(ops)):
                    if len(ops) > 1:
                        c = dict(case, ops_by_thread={**case["ops_by_thread"], tid: ops[:i] + ops[i + 1:]})
                        if "ctx_by_thread" in case:
                            m = case["ctx_by_thread"][tid]
                            c["ctx_by_thread"] = {**case["ctx_by_thread"], tid: m[:i] + m[i + 1:]}
                        yield c


def _tree_variants(ops):
    for i in range(len(ops)):
        yield ops[:i] + ops[i + 1:]
        if ops[i]["op"] == "block":
            yield ops[:i] + ops[i]["body"] + ops[i + 1:]
            for sub in _tree_variants(ops[i]["body"]):
                new = copy.deepcopy(ops)
                new[i]["body"] = sub
                yield new

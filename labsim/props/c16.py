"""C16 — feature switches change side behaviour only, never values."""
import contextlib
import copy
import logging

import labrea.cache
import labrea.logging
import labrea.runtime as lrt
from labrea.logging import LogRequest

from .. import gen
from .. import universe as U
from ..build import PROG_MODULE
from ..core import Result
from ..histsim import HistoryProperty, gen_history
from ..world import World, global_state_guard

CACHE_SW = ["on", "opt:DISABLED", "opt:DISABLE", "ctx"]
EFFECT_SW = ["on", "opt", "toggle"]
LOG_SW = ["on", "opt", "ctx"]


class _Sink(logging.Handler):
    def __init__(self):
        super().__init__(level=logging.DEBUG)
        self.records = []

    def emit(self, record):
        self.records.append((record.levelno, record.getMessage()))


def with_switches(o, sw):
    """The caller's dictionary with the option-spelled switches of `sw` added.  sw["spell"][which] = [value, templated]:
    a switch key may be PRESENT with the value False (then it switches nothing), and its value may be a template that
    refers to another key of the dictionary (switch values are option values like any other)."""
    o = copy.deepcopy(o)
    lab = {}
    spell = sw.get("spell", {})

    def val(which):
        v, templated = spell.get(which, [True, False])
        if templated:
            o.setdefault("SWV", {})[which] = v
            return "{SWV." + which + "}"
        return v

    if sw["cache"].startswith("opt:"):
        lab.setdefault("CACHE", {})[sw["cache"].split(":")[1]] = val("cache")
        if sw.get("legacy_conflict") and sw["cache"] == "opt:DISABLED":
            # both spellings, in conflict: DISABLE (the older one, e.g. from a base configuration layer) is only the DEFAULT of
            # DISABLED, so an explicit DISABLED decides
            lab["CACHE"]["DISABLE"] = not spell.get("cache", [True, False])[0]
    if sw["effects"] == "opt":
        lab.setdefault("EFFECTS", {})["DISABLED"] = val("effects")
    if sw["logging"] == "opt":
        lab.setdefault("LOGGING", {})["DISABLED"] = val("logging")
    if lab:
        o["LABREA"] = lab
    return o


def effective(sw):
    """The switch vector as it acts: an option-spelled switch whose value is False is 'on'."""
    out = dict(sw)
    for which in ("cache", "effects", "logging"):
        if (sw[which] == "opt" or sw[which].startswith("opt:")) and not sw.get("spell", {}).get(which, [True, False])[0]:
            out[which] = "on"
    return out


def multiset(delta, kind):
    return sorted((name, c) for (k, name), c in delta.items() if k == kind)


class C16(HistoryProperty):
    ID = "C16"
    LEVEL = "exploration"
    TECHNIQUE = "deterministic simulation of seeded histories in which the documented switches (cache x effects x logging, every spelling) are flipped per evaluation on a warm world; oracle: values equal an all-switches-off reference world run in lock-step, counters at the backend, effect stubs, LogRequest seam and logging sink"
    LEVEL_TEXT = (
        "Seeded search over (program, history, per-op switch vector from the full cross product {cache: on | LABREA.CACHE.DISABLED | "
        "LABREA.CACHE.DISABLE | cache.disabled() | nocache variant of the program} x {effects: on | LABREA.EFFECTS.DISABLED | "
        "per-dataset toggle} x {logging: on | LABREA.LOGGING.DISABLED | logging.disabled()}), flipped mid-history on one long-lived "
        "instance. A reference world runs the same history with all switches off (mirroring only cache disabling, by context, so that "
        "both caches stay aligned). Oracles per op: equal value; cache disabled => zero backend calls and the same body runs as the "
        "reference under cache.disabled(); cache on => same body runs and backend calls as the reference (a switch must not split or "
        "poison cache entries); effects disabled => no effect runs (else the reference's); logging disabled => nothing reaches the "
        "sink, else INFO LogRequests == cache misses. Sampling, not proof."
    )
    LEVEL_NOTE = "Programs contain no AllOptions and read no LABREA.* key (they would make a switch part of the value by construction); conflicting spellings are not generated."
    DESIGN_REF = "3 C16"
    RULE = (
        "case = program spec (recording backends) + history + one switch vector per op; distinct = hash of (spec, ops, switch "
        "vectors); non-trivial = histories using >= 3 different switch vectors with at least one cache hit in the reference world"
    )
    ASSUMPTIONS = ["no conflicting switch spellings", "no program node reads LABREA.* or AllOptions"]
    STUBS = HistoryProperty.STUBS + ["RecordingCache (real MemoryCache path, logged)", "logging sink handler on the program's logger", "pass-through LogRequest recorder"]
    QUICK = {"runs": 20000, "wall": 40}
    THOROUGH = {"runs": 250000, "wall": 480}
    REQUIRED_CACHE = "recording"
    NONTRIVIAL_MEASURE = "history_many_vectors"

    def _run_iface_nocache(self, case, res):
        """'nocache' holds for interface members too: a member declared with .nocache and implemented by a plain function
        recomputes on every evaluation (no hidden cache around the implementation)."""
        from labrea import Option, abstractdataset, dataset, interface

        from .. import rt

        with global_state_guard():
            w = World({"nodes": [], "roots": []})
            with w.active():
                def m0(a=Option("A", 0)):
                    rt.call("body", "member_default", a=a)
                    return ("default", a)

                member = (abstractdataset if case["abstract"] else dataset).nocache(m0)
                iface = interface("M")(type("NI", (), {"m0": staticmethod(member)}))

                def impl_fn(a=Option("A", 0)):
                    rt.call("body", "member_impl", a=a)
                    return ("impl", a)

                iface.implementation("x")(type("IMPL", (), {"m0": impl_fn}))
                for k, o in enumerate(case["dicts"]):
                    before = w.count("body")
                    try:
                        iface.m0(dict(o))
                    except Exception:  # noqa: BLE001 (an abstract member without implementation for this dispatch value)
                        continue
                    ran = w.count("body") - before
                    res.bump("ops")
                    if ran != 1:
                        res.violate("nocache-dataset-served-without-recomputation", op_index=k, o=o, bodies_run=ran, member="abstract" if case["abstract"] else "with default")
                        break
            res.digest = w.log.digest()
            res.stats["events"] = w.log.seq
            res.seen("history", case)
        return res

    def gen_case(self, rng, tier):
        if rng.random() < 0.03:
            vals = [rng.choice([0, 1, "a"]) for _ in range(2)]
            dicts = [{"M": rng.choice(["x", "x", "y"]), "A": rng.choice(vals)} for _ in range(rng.randint(3, 6))]
            return {"kind": "iface_nocache", "abstract": rng.random() < 0.5, "dicts": dicts, "ops": [], "spec": {"nodes": [], "roots": []}, "cfg": {}}
        variant = rng.random() < 0.15
        # (the nocache variant of a program equals "caching disabled" only if nothing else in it caches)
        cfg = gen.swarm_cfg(rng, off=("shape_change", "alloptions", "nocache") + (("cached",) if variant else ()), on=("effects", "dataset", "fapp"))
        spec = gen.gen_spec(rng, cfg)
        # plain cached(...) nodes and other combinators are driven directly too (they see the caller's dictionary object itself)
        inner = [n["id"] for n in spec["nodes"] if n["k"] in ("cached", "apply", "list", "coalesce", "switch")]
        spec["roots"] = list(dict.fromkeys(spec["roots"] + rng.sample(inner, min(len(inner), rng.randint(0, 2)))))
        spec = gen.prune(spec)
        for n in spec["nodes"]:
            if n["k"] == "dataset":
                n["cache"] = "recording"
                if rng.random() < 0.5 and not n.get("effects"):
                    n["effects"] = rng.randint(1, 2)
                if rng.random() < 0.25:
                    n["log_effects"] = [rng.choice([logging.WARNING, logging.ERROR, logging.DEBUG])]
        ops = gen_history(rng, cfg, spec)
        names = [n["id"] for n in spec["nodes"] if n["k"] == "dataset"]
        for op in ops:
            op["sw"] = {"cache": rng.choice(CACHE_SW), "effects": rng.choice(EFFECT_SW), "logging": rng.choice(LOG_SW),
                        "nest": rng.random() < 0.5, "toggle_ds": rng.choice(names)}
            if rng.random() < 0.3:
                op["sw"]["twice"] = rng.choice([True, "both"])
            if rng.random() < 0.2:
                op["sw"]["legacy_conflict"] = True
            if rng.random() < 0.3:
                op["sw"]["spell"] = {w: [rng.random() < 0.6, rng.random() < 0.6] for w in ("cache", "effects", "logging") if rng.random() < 0.6}
        # the caller keeps ONE options dictionary and edits it in place between evaluations (in a third of the histories)
        bases = [n for n in spec["nodes"] if n["k"] == "dataset" and n.get("effects") and not n.get("abstract")]
        if bases and ops and rng.random() < 0.3:
            # the per-dataset toggle is the dataset's own: a dataset DERIVED from one whose effects are switched off (and
            # maybe on again later) was never toggled itself, so its effects run
            base = rng.choice(bases)
            node = {"k": "derive", "base": base["id"], "how": rng.choice(["with_options", "with_default_options"]), "options": {"Q8": rng.choice([0, "a"])}, "id": "late0"}
            tail = [{"op": "disable_effects", "ds": base["id"]}, {"op": "derive", "node_def": node}]
            if rng.random() < 0.5:
                tail.append({"op": "enable_effects", "ds": base["id"]})
            for _ in range(rng.randint(1, 2)):
                o = rng.choice(ops)
                tail.append({"op": "evaluate", "node": "late0", "o": o["o"], "mut": "derived-while-off",
                             "sw": {"cache": rng.choice(["on", "ctx", "opt:DISABLED"]), "effects": "on", "logging": rng.choice(LOG_SW), "nest": False, "toggle_ds": base["id"]}})
            tail.append({"op": "enable_effects", "ds": base["id"]})
            ops = ops + tail
        return {"cfg": cfg, "spec": spec, "ops": ops, "nocache_variant": variant, "inplace": rng.random() < 0.33}

    @staticmethod
    def _family(spec, nid):
        """A dataset node and all its with_options / with_default_options derivatives (they run the same effects)."""
        fam = {nid}
        changed = True
        while changed:
            changed = False
            for n in spec["nodes"]:
                if n["k"] == "derive" and n["base"] in fam and n["id"] not in fam:
                    fam.add(n["id"])
                    changed = True
        return fam

    def run_case(self, case):
        res = Result()
        if case.get("kind") == "iface_nocache":
            return self._run_iface_nocache(case, res)
        spec = case["spec"]
        by_id = {n["id"]: n for n in spec["nodes"]}
        wspec = spec
        if case.get("nocache_variant"):
            wspec = copy.deepcopy(spec)
            for n in wspec["nodes"]:
                if n["k"] == "dataset":
                    n["cache"] = "nocache"
        # datasets log under their function's module; with_options derivatives under "labrea.dataset"
        loggers = [logging.getLogger(PROG_MODULE), logging.getLogger("labrea.dataset")]
        sink = _Sink()
        old = [(lg.level, lg.propagate, list(lg.handlers)) for lg in loggers]
        for lg in loggers:
            lg.setLevel(logging.DEBUG)
            lg.propagate = False
            lg.handlers = [sink]
            lg._labsim_managed = True  # (the environment variation of the world leaves these two alone)
        # logging.disable() in force (environment): nothing reaches the sink, the LogREQUESTS are issued all the same
        silenced = bool((spec.get("env") or {}).get("log_disable"))
        seam = []

        def rec(request):
            seam.append((request.level, request.msg))
            return labrea.logging._builtin_logging_handler(request)

        try:
            with global_state_guard():
                w = World(wspec)
                ref = World(spec, record=False)
                vectors = set()
                ref_hit = False
                shared_o = {}
                with lrt.handle(LogRequest, rec):
                    for i, op in enumerate(case["ops"]):
                        if op["op"] in ("disable_effects", "enable_effects"):
                            if op["ds"] in w.prog.obj:
                                w.do(op)  # (the warm world only: the reference has every switch off)
                            continue
                        if op["op"] == "derive":
                            if op["node_def"]["base"] in w.prog.obj:
                                w.do(op)
                                ref.do(op)
                                if case.get("nocache_variant"):
                                    pass
                            continue
                        if op["node"] not in w.prog.obj:
                            continue
                        sw = effective(op["sw"])
                        vectors.add((sw["cache"], sw["effects"], sw["logging"]))
                        cache_off = sw["cache"] != "on" or bool(case.get("nocache_variant"))
                        # per-dataset toggle (a structural op on the warm world only)
                        toggled = set()
                        if sw["effects"] == "toggle":
                            toggled = self._family(spec, sw["toggle_ds"])
                            for nid in toggled:
                                # (the per-dataset toggle is a flag: switching off twice is switching off once)
                                for _ in range(2 if op["sw"].get("twice") else 1):
                                    w.prog.obj[nid].disable_effects()
                        o = with_switches(op["o"], op["sw"])
                        ctxs = []
                        if sw["cache"] == "ctx":
                            ctxs.append(labrea.cache.disabled)
                        if sw["logging"] == "ctx":
                            ctxs.append(labrea.logging.disabled)
                        if sw["nest"]:
                            ctxs.reverse()
                        before = w.snapshot_counts()
                        del sink.records[:]
                        del seam[:]
                        with contextlib.ExitStack() as st:
                            for c in ctxs:
                                st.enter_context(c())
                            if case.get("inplace"):
                                shared_o.clear()
                                shared_o.update(copy.deepcopy(o))
                                w.op_index += 1
                                w.calls_in_op = {}
                                with w.active():
                                    out = w._eval_op("evaluate", {"op": "evaluate", "node": op["node"], "o": o}, o_obj=shared_o)
                            else:
                                out = w.do({"op": "evaluate", "node": op["node"], "o": o})
                        delta = w.diff_counts(before, w.counts)
                        n_sink, n_seam, n_seam_all = len(sink.records), len([x for x in seam if x[0] == logging.INFO]), len(seam)
                        for nid in toggled:
                            w.prog.obj[nid].enable_effects()
                            if op["sw"].get("twice") == "both":
                                w.prog.obj[nid].enable_effects()
                        if not out.ok and ctxs and out.exc is not None:
                            # user code failing INSIDE the with-block: the exception leaves through labrea's context managers,
                            # which must restore the thread's runtime all the same (later ops run with whatever is left)
                            try:
                                with contextlib.ExitStack() as st:
                                    for c in ctxs:
                                        st.enter_context(c())
                                    raise out.exc
                            except type(out.exc):
                                res.bump("exceptions_leaving_through_switch_contexts")
                        # reference: all switches off (cache disabling mirrored, by context, to keep both caches aligned)
                        rbefore = ref.snapshot_counts()
                        del seam[:]
                        with (labrea.cache.disabled() if cache_off else contextlib.nullcontext()):
                            rout = ref.do({"op": "evaluate", "node": op["node"], "o": op["o"]})
                        rdelta = ref.diff_counts(rbefore, ref.counts)
                        r_seam = len([x for x in seam if x[0] == logging.INFO])
                        res.bump("ops")
                        info = dict(op_index=i, node=op["node"], o=o, switches={k: sw[k] for k in ("cache", "effects", "logging")},
                                    nocache_variant=bool(case.get("nocache_variant")))
                        if not out.same(rout):
                            res.violate("switch-changed-value", **info, got=out.brief(), all_off=rout.brief())
                            break
                        bodies, rbodies = multiset(delta, "body"), multiset(rdelta, "body")
                        if bodies != rbodies:
                            res.violate("switch-changed-recomputation", **info, body_runs=bodies, reference_body_runs=rbodies, cache_disabled=cache_off)
                            break
                        backend = multiset(delta, "backend")
                        if cache_off and backend:
                            res.violate("backend-touched-while-cache-disabled", **info, backend_calls=backend)
                            break
                        if not cache_off and backend != multiset(rdelta, "backend"):
                            res.violate("switch-changed-cache-traffic", **info, backend_calls=backend, reference=multiset(rdelta, "backend"))
                            break
                        if not cache_off and any(name.endswith("=hit") for (k, name) in rdelta):
                            ref_hit = True
                        effects = multiset(delta, "effect")
                        if sw["effects"] == "opt":
                            if effects:
                                res.violate("effect-ran-while-disabled", **info, effects=effects)
                                break
                        else:
                            want = multiset(rdelta, "effect")
                            if sw["effects"] == "toggle":
                                names = {by_id[self._root_ds(by_id, nid)]["name"] for nid in toggled}
                                ran = [e for e in effects if e[0].split("#")[0] in names]
                                if ran:
                                    res.violate("effect-ran-while-disabled", **info, effects=ran, toggled=sorted(names))
                                    break
                                want = [e for e in want if e[0].split("#")[0] not in names]
                            if effects != want:
                                res.violate("switch-changed-effects", **info, effects=effects, reference=want)
                                break
                        if sw["logging"] != "on":
                            if n_sink:
                                res.violate("log-emitted-while-disabled", **info, records=n_sink)
                                break
                        elif out.ok:
                            if n_seam != r_seam or (n_sink != n_seam_all and sw["effects"] == "on" and not silenced):
                                res.violate("switch-changed-logging", **info, info_requests=n_seam, reference=r_seam, sink=n_sink, all_requests=n_seam_all)
                                break
                            if not cache_off:
                                # one INFO request per evaluation not served from the cache: every store was preceded by one
                                # (lower bound); every one follows a lookup that missed (upper bound; validate() looks up too)
                                misses = sum(c for (k, name), c in delta.items() if k == "backend" and name.endswith(".exists=miss"))
                                stores = sum(c for (k, name), c in delta.items() if k == "backend" and name.endswith(".set"))
                                if not (stores <= n_seam <= misses):
                                    res.violate("info-requests-not-one-per-miss", **info, info_requests=n_seam, cache_misses=misses, stores=stores)
                                    break
                res.stats["events"] = w.log.seq
                res.digest = w.log.digest()
                res.seen("history", (spec, case["ops"]))
                if len(vectors) >= 3 and ref_hit:
                    res.seen("history_many_vectors", (spec, case["ops"]))
                res.seen("vectors", sorted(vectors))
                res.sample = self.sample_of(case)
        finally:
            for lg, (lvl, prop, hs) in zip(loggers, old):
                lg.setLevel(lvl)
                lg.propagate = prop
                lg.handlers = hs
                lg._labsim_managed = False
        return res

    @staticmethod
    def _root_ds(by_id, nid):
        n = by_id[nid]
        while n["k"] == "derive":
            n = by_id[n["base"]]
        return n["id"]

    def signature(self, case, violation):
        d = violation.get("detail", {})
        if (violation["kind"] == "switch-changed-value" and d.get("switches", {}).get("effects") in ("opt", "toggle")
                and any(n.get("effects_opt") for n in case.get("spec", {}).get("nodes", []) if n["k"] == "dataset")
                and any(n["k"] == "coalesce" for n in case["spec"]["nodes"])):
            # open finding (a face of KF-C10): validate() insists on an effect's own option only while effects are enabled, and
            # coalesce chooses its member by validate()
            return "effects-switch-changes-which-coalesce-member-validates"
        return None

    def known_probes(self):
        spec = {"nodes": [
            {"k": "opt", "key": "E1", "id": "n0"},
            {"k": "dataset", "name": "D1", "args": {}, "effects_opt": ["n0"], "cache": "recording", "id": "n1"},
            {"k": "dataset", "name": "D2", "args": {}, "cache": "recording", "id": "n2"},
            {"k": "coalesce", "members": ["n1", "n2"], "id": "n3"}], "roots": ["n3"]}
        sw = {"cache": "on", "effects": "opt", "logging": "on", "nest": False, "toggle_ds": "n1"}
        ops = [{"op": "evaluate", "node": "n3", "o": {}, "sw": sw}]
        return [("KF-C16-effects-switch-changes-coalesce-choice", {"cfg": {}, "spec": spec, "ops": ops, "nocache_variant": False, "inplace": False})]

"""C07 — overload and interface dispatch select exactly the registered implementation.

history-sim with a tiny reference model: an alias -> implementation table per focus dataset, updated by
the history's register / overload / stacked-overload / set_dispatch ops.  The dispatch VALUE and the
value of the implementation the model picks are obtained by evaluating those nodes directly on a cold
twin (labrea's combinators are not re-implemented; only the selection is modelled)."""
import copy

import labrea
from labrea import Option, abstractdataset, dataset, implements, interface
from labrea.dataset import Dataset as _Dataset
from labrea.interface import Interface

from .. import gen
from .. import rt
from .. import universe as U
from ..build import _key
from ..core import Result
from ..histsim import HistoryProperty
from ..rt import crepr, freeze
from ..world import World, global_state_guard

ALIASES = ["a", "b", "c", 1, 2, None]


class C07(HistoryProperty):
    ID = "C07"
    LEVEL = "exploration"
    TECHNIQUE = "deterministic simulation of seeded histories interleaving register / overload / stacked overload / list alias / set_dispatch / interface implementation with evaluations on one long-lived instance; overload-table reference model + direct evaluation of the selected implementation on a cold twin; fingerprint-based 'already stored' tolerance"
    LEVEL_TEXT = (
        "Seeded search over histories in which registrations happen BETWEEN evaluations against the same cache. Overload part: a "
        "focus dataset (dispatch = option key | Option with default | selector dataset; abstract or not; callback; cached or not) "
        "inside a generated program; model = alias table; expected = callback(value of the implementation the model picks, evaluated "
        "directly on a cold twin under the effective options), default when the dispatch value is unregistered or cannot be "
        "determined, failure if abstract; a stored value is accepted only when the fingerprint of the current call equals the "
        "fingerprint of an earlier successful call (the statement's 'not already stored'). Interface part: members of a generated "
        "interface under one dictionary all resolve through the same alias, members without override use the interface default, and an "
        "implementation that omits an abstract member or names an unknown one raises TypeError at definition and leaves every member "
        "x alias behaving as before. Sampling, not proof."
    )
    LEVEL_NOTE = "Trusted: the alias-table model (a dict) and the stub callback semantics; the dispatch value and implementation values come from labrea itself on a cold twin (C05 matters are not re-decided here)."
    DESIGN_REF = "3 C07"
    RULE = (
        "case = (program spec + focus dataset + history of structural and evaluate ops) | (interface spec + implement / evaluate "
        "history); distinct = hash of the case; non-trivial = histories with a registration after the first evaluation whose alias "
        "is evaluated afterwards"
    )
    ASSUMPTIONS = ["hashable dispatch values, type-consistent dictionaries", "no two aliases equal in Python (1 vs True)"]
    QUICK = {"runs": 20000, "wall": 40}
    THOROUGH = {"runs": 400000, "wall": 480}
    NONTRIVIAL_MEASURE = "history_register_after_eval"

    # ------------------------------------------------------------------ generation
    def gen_case(self, rng, tier):
        if rng.random() < 0.3:
            return self._gen_interface_case(rng)
        cfg = gen.swarm_cfg(rng, off=("shape_change", "alloptions"), on=("dispatch", "overloads", "dataset"))
        spec = gen.gen_spec(rng, cfg)
        # the focus dataset: fresh, appended to the spec, consuming existing nodes
        g = gen.SpecGen(rng, cfg)
        g.nodes = spec["nodes"]
        g.info = {n["id"]: {"hashable": not gen.may_be_unhashable({m["id"]: m for m in spec["nodes"]}, n["id"]), "is_ds": n["k"] in ("dataset", "derive"),
                            "forced": set(), "kind": n["k"], "list": False} for n in spec["nodes"]}
        g.n_ds = sum(1 for n in spec["nodes"] if n["k"] == "dataset")
        name = f"F{g.n_ds}"
        focus = {"k": "dataset", "name": name, "args": {"abc"[i]: g.pick_any() for i in range(rng.randint(0, 2))}}
        x = rng.random()
        tuple_dispatch = False
        if x < 0.15:
            # a dispatch that yields a TUPLE (e.g. (engine, major version)); aliases are tuples then
            a1 = g.add({"k": "opt", "key": "M", "default": {"t": "const", "v": "a"}}, hashable=True)
            a2 = g.add({"k": "opt", "key": "M2", "default": {"t": "const", "v": 1}}, hashable=True)
            tn = g.add({"k": "tuple", "items": [a1, a2]}, hashable=True)
            focus["dispatch"] = {"n": tn}
            tuple_dispatch = True
        elif x < 0.5:
            focus["dispatch"] = rng.choice(U.DISPATCH_KEYS)
        else:
            focus["dispatch"] = {"n": g.pick_hashable()}
        if rng.random() < 0.25:
            focus["abstract"] = True
        if rng.random() < 0.4:
            focus["callback"] = True
        focus["cache"] = "nocache" if rng.random() < 0.4 else "recording"
        if not focus.get("abstract") and rng.random() < 0.3:
            focus["family_factory"] = True  # derived from an ABSTRACT family factory with abstract=False
        if rng.random() < 0.25:
            focus["options"] = g.preset()
        if rng.random() < 0.2:
            focus["default_options"] = g.preset()
        fid = g.add(focus, is_ds=True)
        spec = {"nodes": g.nodes, "roots": [fid], **({"env": spec["env"]} if spec.get("env") else {})}
        if not gen.spec_ok(spec):
            return self.gen_case(rng, tier)
        spec = gen.prune(spec)
        candidates = [n["id"] for n in spec["nodes"] if n["id"] != fid]
        # a dataset DERIVED from the focus (with_options on a key the focus does not pre-set and that is no dispatch key): it
        # shares the focus' table of overloads -- registrations through either reach both -- until set_dispatch() on one of
        # them gives that one a table (and a dispatch) of its own
        members = [fid]
        if rng.random() < 0.4:
            taken = set(U.all_paths(focus.get("options") or {})) | set(U.all_paths(focus.get("default_options") or {}))
            free = [k for k in ("A", "B", "C", "S.X", "S.Y") if k not in taken and k.split(".")[0] not in taken]
            if free:
                p = {}
                U.set_path(p, rng.choice(free), rng.choice([0, 1, "a", "b"]))
                spec["nodes"].append({"k": "derive", "base": fid, "how": "with_options", "options": p, "id": "fder"})
                spec["roots"].append("fder")
                members.append("fder")
        # constants that are EQUAL (==) but not the same value -- 1, 1.0, True; 0, False -- as implementations registered one
        # after the other under one alias: the later registration replaces the earlier one
        twins = []
        if rng.random() < 0.3:
            k0 = len(spec["nodes"])
            for j, v in enumerate(rng.choice([[1, True, 1.0], [0, False], [True, 1]])):
                spec["nodes"].insert(0, {"k": "val", "v": v, "id": f"tw{k0 + j}"})
                twins.append(f"tw{k0 + j}")
        dg = U.DictGen(rng, cfg, no_list_keys=gen.hashable_required_keys(spec) | set(U.DISPATCH_KEYS))
        o = dg.fresh()
        ops = []
        nov = 0
        for _ in range(rng.randint(4, 16)):
            x = rng.random()
            if x < 0.55:
                o, m = dg.mutate(o)
                o2 = copy.deepcopy(o)
                if isinstance(focus["dispatch"], str) and rng.random() < 0.7:
                    o2[focus["dispatch"]] = rng.choice(ALIASES)
                if tuple_dispatch:
                    if rng.random() < 0.6:
                        o2["M"] = rng.choice(["a", "b"])
                    if rng.random() < 0.6:
                        o2["M2"] = rng.choice([1, 2])
                ops.append({"op": "evaluate", "node": rng.choice(members), "o": o2})
            elif x < 0.75:
                alias = rng.choice(ALIASES)
                if tuple_dispatch and rng.random() < 0.8:
                    alias = {"tuple": [rng.choice(["a", "b"]), rng.choice([1, 2])]}
                elif rng.random() < 0.2:
                    alias = [alias, rng.choice(["x", "y"])]
                impl = {"n": rng.choice(candidates)} if candidates else None
                if twins and rng.random() < 0.6:
                    impl = {"n": rng.choice(twins)}
                    alias = "a"
                if impl and gen.node_by_id(spec, impl["n"])["k"] in ("dataset", "derive") and rng.random() < 0.5:
                    impl["via"] = "overload"
                if impl is None or rng.random() < 0.5:
                    nov += 1
                    impl = {"fn": f"{name}_ov{nov}", "args": ({"a": rng.choice(candidates)} if candidates and rng.random() < 0.6 else {}), "id": f"ov{nov}"}
                ops.append({"op": "register", "ds": rng.choice(members), "alias": alias, "impl": impl})
            elif x < 0.85:
                nov += 1
                impl = {"fn": f"{name}_ov{nov}", "args": ({"a": rng.choice(candidates)} if candidates and rng.random() < 0.6 else {}), "id": f"ov{nov}"}
                ops.append({"op": "overload_stacked", "ds": rng.choice(members), "aliases": rng.sample(ALIASES, 2), "impl": impl})
            elif x < 0.92:
                hashable = [c for c in candidates if not gen.may_be_unhashable({m["id"]: m for m in spec["nodes"]}, c)]
                d = rng.choice(U.DISPATCH_KEYS) if rng.random() < 0.5 or not hashable else {"n": rng.choice(hashable)}
                ops.append({"op": "set_dispatch", "ds": rng.choice(members), "dispatch": d})
        return {"kind": "overload", "cfg": cfg, "spec": spec, "focus": fid, "ops": ops}

    # ------------------------------------------------------------------ overload part
    def _run_overload(self, case, res):
        spec, fid = case["spec"], case["focus"]
        F = gen.node_by_id(spec, fid)
        # the plain variant of the focus dataset (its default implementation, nothing else) and option nodes for string dispatches
        plain = {k: v for k, v in F.items() if k in ("k", "name", "args")}
        plain["id"] = "F__plain"
        plain["cache"] = "nocache"
        tspec = {"nodes": spec["nodes"] + [plain] + [{"k": "opt", "key": k, "id": f"opt__{k}"} for k in U.DISPATCH_KEYS], "roots": spec["roots"],
                 **({"env": spec["env"]} if spec.get("env") else {})}  # (the same environment: it is part of the run, not of labrea)
        # the focus and the dataset derived from it point to ONE table of overloads; set_dispatch() on a member gives that
        # member a copy of its table with the new dispatch
        tables = [{"dispatch": F["dispatch"], "map": {}}]
        ptr = {fid: 0, "fder": 0}
        derived = next((n for n in spec["nodes"] if n["id"] == "fder"), None)
        stored = {}  # fingerprint text -> value text (successful evaluations of the focus dataset)
        registered_after_eval = set()
        evaluated = False
        nontrivial = False
        w = World(spec)
        for i, op in enumerate(case["ops"]):
            if op["op"] != "evaluate":
                w.do(op)
                res.bump("structural_ops")
                if w.count("body") and False:
                    pass
                tab = tables[ptr[op.get("ds", fid)]]
                if op["op"] == "register":
                    for a in (op["alias"] if isinstance(op["alias"], list) else [op["alias"]]):  # ({"tuple": ...} is ONE alias)
                        tab["map"][_key(a)] = op["impl"]
                        if evaluated:
                            registered_after_eval.add(crepr(_key(a)))
                elif op["op"] == "overload_stacked":
                    for a in op["aliases"]:
                        tab["map"][_key(a)] = op["impl"]
                        if evaluated:
                            registered_after_eval.add(crepr(_key(a)))
                elif op["op"] == "set_dispatch":
                    tables.append({"dispatch": op["dispatch"], "map": dict(tab["map"])})
                    ptr[op.get("ds", fid)] = len(tables) - 1
                continue
            evaluated = True
            res.bump("ops")
            o = op["o"]
            backend = w.prog.caches.get(fid)
            n_lookups = len(backend.lookups) if backend is not None else 0
            out = w.do(op)
            # ---- expectation
            member = op["node"]
            table, dispatch = tables[ptr[member]]["map"], tables[ptr[member]]["dispatch"]
            eff = U.overlay(U.overlay(F.get("default_options") or {}, o), F.get("options") or {})
            if member == "fder":
                eff = U.overlay(eff, derived["options"])
            t = World(tspec, record=False)
            for sop in w.structural:
                t.do(sop)
            dnode = dispatch["n"] if isinstance(dispatch, dict) else f"opt__{dispatch}" if dispatch in U.DISPATCH_KEYS else None
            ok, dv = t.raw(dnode, eff)
            impl = None
            if ok:
                try:
                    impl = table.get(dv)
                except TypeError:
                    res.bump("skipped_unhashable_dispatch")
                    continue
                if impl is not None and crepr(dv) in registered_after_eval:
                    nontrivial = True
            if impl is None:
                which = "default"
                if F.get("abstract"):
                    expect_ok, val = False, None
                else:
                    expect_ok, val = t.raw("F__plain", eff)
            else:
                which = "overload"
                target = impl["n"] if "n" in impl else impl["id"]
                expect_ok, val = t.raw(target, eff)
            if expect_ok and F.get("callback"):
                val = ("cb", F["name"], freeze(val))
            want = crepr(val) if expect_ok else None
            acceptable = [("ok", want)] if expect_ok else [("fail", None)]
            if backend is not None:
                # "not already stored": a value stored earlier under a cache key this evaluation looked up (the keys are
                # observed at the storage seam: they are computed under the mixed options, inside the pre-set wrappers)
                looked_up = set(backend.lookups[n_lookups:])
                for key, value in backend.sets:
                    if key in looked_up and ("ok", crepr(value)) not in acceptable:
                        acceptable.append(("ok", crepr(value)))
            got = ("ok", out.value) if out.ok else ("fail", None)
            if got not in acceptable:
                res.violate("wrong-implementation-selected", op_index=i, node=member, o=o, effective=eff, dispatch_value=crepr(dv) if ok else "<failed>",
                            model_picks=which, table=sorted(crepr(k) for k in table), got=out.brief(), acceptable=acceptable)
                return w
        if nontrivial:
            res.seen("history_register_after_eval", (spec, case["ops"]))
        return w

    # ------------------------------------------------------------------ interface part
    def _gen_interface_case(self, rng):
        members = {}
        for i in range(rng.randint(2, 4)):
            kind = rng.choice(["annot", "abstract", "dataset", "plain"])
            members[f"m{i}"] = {"kind": kind}
            if kind == "dataset" and i > 0 and rng.random() < 0.5:
                members[f"m{i}"]["uses"] = f"m{rng.randrange(i)}"  # a member depending on another member
        disp = rng.choice([{"key": "M"}, {"key": "M2", "default": rng.choice(["a", "b"])}])
        ifaces = [{"name": "I0", "dispatch": disp, "members": members}]
        if rng.random() < 0.3:
            ifaces.append({"name": "I1", "dispatch": disp, "members": {"m0": {"kind": rng.choice(["annot", "dataset"])}, "n1": {"kind": "annot"}}})
        ops = []
        nimpl = 0
        for _ in range(rng.randint(3, 10)):
            x = rng.random()
            if x < 0.45:
                nimpl += 1
                targets = [0] if len(ifaces) == 1 or rng.random() < 0.6 else [0, 1]
                names = sorted({m for t in targets for m in ifaces[t]["members"]})
                provided = {}
                for m in names:
                    abstract = any(ifaces[t]["members"].get(m, {}).get("kind") in ("annot", "abstract") for t in targets)
                    if abstract or rng.random() < 0.5:
                        provided[m] = rng.choice(["fn", "const", "option", "dataset", "staticfn"])
                flaw = rng.random()
                if flaw < 0.2 and any(provided):
                    abstract_names = [m for m in provided if any(ifaces[t]["members"].get(m, {}).get("kind") in ("annot", "abstract") for t in targets)]
                    if abstract_names:
                        del provided[rng.choice(abstract_names)]  # omits an abstract member
                elif flaw < 0.3:
                    provided["zz_unknown"] = "const"  # names an unknown member
                alias = rng.choice(["a", "b", "c"])
                if rng.random() < 0.2:
                    alias = [alias, "d"]
                # the order in which members are written in the class body matters for what a half-done registration leaves behind
                order = list(provided)
                rng.shuffle(order)
                ops.append({"op": "implement", "tag": f"impl{nimpl}", "targets": targets, "alias": alias, "provided": {m: provided[m] for m in order}})
            else:
                o = {}
                if rng.random() < 0.8:
                    o[disp["key"]] = rng.choice(["a", "b", "c", "d", "q"])
                if rng.random() < 0.7:
                    o["A"] = rng.choice(U.SCALARS)
                ops.append({"op": "evaluate_members", "o": o})
        return {"kind": "interface", "ifaces": ifaces, "ops": ops}

    def _build_interfaces(self, case):
        """Returns (list of Interface classes, expectations helper state)."""
        built = []
        for spec in case["ifaces"]:
            ns = {"__annotations__": {}}
            d = spec["dispatch"]
            disp = Option(d["key"], d["default"]) if "default" in d else d["key"]
            for name, m in spec["members"].items():
                kind = m["kind"]
                if kind == "annot":
                    ns["__annotations__"][name] = str
                elif kind == "abstract":
                    def fn():
                        pass  # pragma: no cover

                    fn.__name__ = name
                    ns[name] = abstractdataset(fn)
                elif kind == "dataset":
                    uses = m.get("uses")
                    if uses is not None and uses in ns and isinstance(ns[uses], _Dataset):
                        dep = ns[uses]

                        def fn(x=dep, _n=name, _i=spec["name"]):
                            rt.call("body", f"{_i}.{_n}", x=x)
                            return ("default", _i, _n, freeze(x))
                    else:
                        m.pop("uses", None)

                        def fn(a=Option("A", 0), _n=name, _i=spec["name"]):
                            rt.call("body", f"{_i}.{_n}", a=a)
                            return ("default", _i, _n, freeze(a))

                    fn.__name__ = name
                    ns[name] = dataset(fn)
                else:
                    ns[name] = Option("A", ("plain-default", spec["name"], name))
            built.append(Interface(spec["name"], (), ns, disp if not isinstance(disp, str) else Option(disp)))
        return built

    def _run_interface(self, case, res):
        ifaces = self._build_interfaces(case)
        if rt.CUR is not None and rt.CUR.count("body"):
            res.violate("body-ran-at-definition", what="interface")
            return
        # model: per interface index, alias -> {member: ("impl", tag, how)}
        model = [dict() for _ in ifaces]
        registered_after_eval = False
        evaluated = False
        nontrivial = False
        stored = {}  # (interface, member, fingerprint) -> first successful outcome
        seen_before = {}  # fingerprints evaluated successfully before the current evaluation

        def member_names(t):
            return list(case["ifaces"][t]["members"])

        def expected(t, name, o):
            spec = case["ifaces"][t]
            d = spec["dispatch"]
            dv = o.get(d["key"], d.get("default", rt))  # rt as a sentinel for "cannot be determined"
            impl = model[t].get(dv, {}).get(name) if dv is not rt else None
            a = o.get("A", 0)
            if impl is not None:
                tag, how = impl
                if how == "const":
                    return ("ok", crepr(("impl", tag, name)))
                if how == "option":
                    return ("ok", crepr(o["A"])) if "A" in o else ("fail", None)
                return ("ok", crepr(("impl", tag, name, freeze(a))))
            kind = spec["members"][name]["kind"]
            if kind in ("annot", "abstract"):
                return ("fail", None)
            if kind == "plain":
                return ("ok", crepr(o["A"])) if "A" in o else ("ok", crepr(("plain-default", spec["name"], name)))
            uses = spec["members"][name].get("uses")
            if uses is not None:
                inner = expected(t, uses, o)
                if inner[0] == "fail":
                    return ("fail", None)
                return ("ok", "('default', %r, %r, %s)" % (spec["name"], name, inner[1]))
            return ("ok", crepr(("default", spec["name"], name, freeze(a))))

        def observe(t, name, o):
            """Evaluate a member; every successful evaluation is remembered by fingerprint (it may have been stored)."""
            try:
                got = ("ok", crepr(getattr(ifaces[t], name)(copy.deepcopy(o))))
            except Exception:  # noqa: BLE001
                return ("fail", None)
            try:
                stored.setdefault((t, name, getattr(ifaces[t], name).fingerprint(copy.deepcopy(o))), got)
            except Exception:  # noqa: BLE001
                pass
            return got

        def snapshot(dicts):
            out = {}
            for t in range(len(ifaces)):
                for n in member_names(t):
                    for o in dicts:
                        out[(t, n, crepr(o))] = observe(t, n, o)
                        try:
                            if out[(t, n, crepr(o))][0] == "ok":
                                seen_before[(t, n, getattr(ifaces[t], n).fingerprint(copy.deepcopy(o)))] = True
                        except Exception:  # noqa: BLE001
                            pass
            return out

        for i, op in enumerate(case["ops"]):
            if op["op"] == "evaluate_members":
                evaluated = True
                res.bump("ops")
                if registered_after_eval:
                    nontrivial = True
                for t in range(len(ifaces)):
                    for name in member_names(t):
                        got = observe(t, name, op["o"])
                        want = expected(t, name, op["o"])
                        res.bump("member_evaluations")
                        try:
                            fp = getattr(ifaces[t], name).fingerprint(copy.deepcopy(op["o"]))
                        except Exception:  # noqa: BLE001
                            fp = None
                        if got != want and got[0] == "ok" and fp is not None and stored.get((t, name, fp)) == got and seen_before.get((t, name, fp)):
                            res.bump("already_stored_accepted")
                            continue  # "not already stored": same fingerprint as an EARLIER successful evaluation
                        if fp is not None and got[0] == "ok":
                            seen_before[(t, name, fp)] = True
                        if got != want:
                            res.violate("interface-member-resolved-wrongly", op_index=i, interface=case["ifaces"][t]["name"], member=name, o=op["o"],
                                        got=got, want=want, registered=[[str(a), sorted(m)] for a, m in model[t].items()])
                            return
                continue
            # implement
            targets = op["targets"]
            aliases = op["alias"] if isinstance(op["alias"], list) else [op["alias"]]
            names = {m for t in targets for m in member_names(t)}
            unknown = [m for m in op["provided"] if m not in names]
            missing = [m for t in targets for m in member_names(t)
                       if case["ifaces"][t]["members"][m]["kind"] in ("annot", "abstract") and m not in op["provided"]]
            valid = not unknown and not missing
            probe_dicts = [{case["ifaces"][0]["dispatch"]["key"]: a, "A": 1} for a in ["a", "b", "c", "d"]]
            before = snapshot(probe_dicts) if not valid else None
            ns = {}
            for m, how in op["provided"].items():
                if how == "const":
                    ns[m] = ("impl", op["tag"], m)
                elif how == "option":
                    ns[m] = Option("A")
                else:
                    def fn(a=Option("A", 0), _m=m, _t=op["tag"]):
                        rt.call("body", f"{_t}.{_m}", a=a)
                        return ("impl", _t, _m, freeze(a))

                    fn.__name__ = m
                    # ("staticfn": the same plain function, written with @staticmethod as one does inside a class body)
                    ns[m] = dataset.nocache(fn) if how == "dataset" else staticmethod(fn) if how == "staticfn" else fn
            calls_before = rt.CUR.count("body") if rt.CUR is not None else 0
            try:
                cls = type(op["tag"], (), ns)
                implements(*[ifaces[t] for t in targets], alias=op["alias"])(cls)
                raised = None
            except TypeError as e:
                raised = e
            except Exception as e:  # noqa: BLE001
                res.violate("implementation-definition-raised-unexpectedly", op_index=i, error=f"{type(e).__name__}: {e}")
                return
            res.bump("implementations_defined" if raised is None else "implementations_rejected")
            if rt.CUR is not None and rt.CUR.count("body") != calls_before:
                res.violate("body-ran-at-definition", op_index=i, what="implementation")
                return
            if valid and raised is not None:
                res.violate("valid-implementation-rejected", op_index=i, error=str(raised), provided=list(op["provided"]))
                return
            if not valid:
                if raised is None:
                    res.violate("invalid-implementation-accepted", op_index=i, unknown=unknown, missing=missing, provided=list(op["provided"]))
                    return
                after = snapshot(probe_dicts)
                changed = sorted(k for k in before if before[k] != after[k])
                if changed:
                    res.violate("rejected-implementation-registered-something", op_index=i, unknown=unknown, missing=missing, provided=list(op["provided"]),
                                changed=[list(c) for c in changed[:4]], alias=op["alias"])
                    return
                continue
            if evaluated:
                registered_after_eval = True
            for t in targets:
                for a in aliases:
                    entry = dict(model[t].get(a, {}))
                    for m, how in op["provided"].items():
                        if m in case["ifaces"][t]["members"]:
                            entry[m] = (op["tag"], how)
                    model[t][a] = entry
        if nontrivial:
            res.seen("history_register_after_eval", case)

    # ------------------------------------------------------------------ driver glue
    def run_case(self, case):
        res = Result()
        with global_state_guard():
            if case["kind"] == "overload":
                w = self._run_overload(case, res)
                res.stats["events"] = w.log.seq
                res.digest = w.log.digest()
                res.sample = self.sample_of(case)
            else:
                w = World({"nodes": [], "roots": []})
                with w.active():
                    self._run_interface(case, res)
                res.stats["events"] = w.log.seq
                res.digest = w.log.digest()
                res.sample = case
            res.bump("kind:" + case["kind"])
            res.seen("history", case)
        return res

    def shrink_candidates(self, case):
        if case["kind"] == "interface":
            ops = case["ops"]
            for i in range(len(ops)):
                yield dict(case, ops=ops[:i] + ops[i + 1:])
            for i, op in enumerate(ops):
                if op["op"] == "implement":
                    for m in list(op["provided"]):
                        new = copy.deepcopy(ops)
                        del new[i]["provided"][m]
                        yield dict(case, ops=new)
            if len(case["ifaces"]) > 1 and all(op.get("targets", [0]) == [0] for op in ops):
                yield dict(case, ifaces=case["ifaces"][:1])
            return
        ops = case["ops"]
        n = len(ops)
        size = n // 2
        while size >= 1:
            for start in range(0, n, size):
                cand = ops[:start] + ops[start + size:]
                if cand and len(cand) < n:
                    yield dict(case, ops=cand)
            size //= 2
        for i, op in enumerate(ops):
            if "o" in op:
                for p in U.leaf_paths(op["o"]):
                    new = copy.deepcopy(ops)
                    U.del_path(new[i]["o"], p)
                    yield dict(case, ops=new)
        used = {op["impl"]["n"] for op in ops if op["op"] == "register" and "n" in op["impl"]} | {case["focus"]}
        for op in ops:
            if op["op"] in ("register", "overload_stacked"):
                used |= set(op["impl"].get("args", {}).values())
            if op["op"] == "set_dispatch" and isinstance(op["dispatch"], dict):
                used.add(op["dispatch"]["n"])
        fake = dict(case, ops=[{"node": u} for u in used] + [op for op in ops if "o" in op])
        for cand in self._spec_candidates(fake):
            if self.spec_valid(cand["spec"]) and all(any(n["id"] == u for n in cand["spec"]["nodes"]) for u in used):
                yield dict(case, spec=cand["spec"])

#!/bin/bash
# usage: importseed.sh <round-dir-prefix e.g. /tmp/seed4-> <prop> <src a|b> <dst letter>
pre=$1; p=$2; src=$3; dst=$4
d=/verif/seeded/$p-$dst
mkdir -p $d
cp $pre$p/$src/patch.diff $pre$p/$src/demo.py $pre$p/$src/meta.json $d/
echo "$d"

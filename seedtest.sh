#!/bin/bash
# usage: seedtest.sh <dir with patch.diff [demo.py]> <property id> [more ids...]
# Applies the seeded change to a scratch worktree of /repo's HEAD (never to /repo itself), confirms that the
# existing test suite still passes and that the demonstration fails, then runs the named checks against it.
d="$1"; shift
wt=$(mktemp -d /tmp/mut-XXXXXX)
git -C /repo worktree add -q --detach "$wt" HEAD || exit 2
trap 'git -C /repo worktree remove --force "$wt" 2>/dev/null; rm -rf "$wt"' EXIT
if ! git -C "$wt" apply "$d/patch.diff" 2>/dev/null; then
  if ! git -C "$wt" apply -3 "$d/patch.diff" 2>/dev/null; then echo "PATCH-DOES-NOT-APPLY $d"; exit 3; fi
fi
( cd "$wt" && PYTHONPATH="$wt" timeout 600 /venv/bin/python -m pytest -q -p no:cacheprovider tests 2>&1 | tail -1 )
if [ -f "$d/demo.py" ]; then
  PYTHONPATH="$wt" timeout 120 /venv/bin/python "$d/demo.py" >/dev/null 2>&1; echo "demo on mutated tree: exit $?"
  PYTHONPATH=/repo timeout 120 /venv/bin/python "$d/demo.py" >/dev/null 2>&1; echo "demo on /repo HEAD:   exit $?"
fi
for id in "$@"; do
  out=$(LABSIM_REPO="$wt" timeout 900 /verif/check "$id" --tier "${TIER:-quick}" 2>&1); rc=$?
  echo "check $id -> exit $rc :: $(echo "$out" | grep -E 'violation kind|corpus case fails|HARNESS' | head -2 | cut -c1-300)"
done

#!/venv/bin/python
"""Regenerates MANIFEST.json from the property modules (run after adding / changing a property module):
   PYTHONPATH=/repo:/verif /venv/bin/python mkmanifest.py"""
import importlib
import json
import os
import subprocess

HERE = os.path.dirname(os.path.abspath(__file__))
ALL = [f"C{i:02d}" for i in range(1, 21)]
NA_PURE = {
    "C04": "Option resolution is a pure function of (option definition, dictionary): no state, schedule, fault, clock or second party for a simulator to own; deciding it is plain input generation (property-based testing), not deterministic simulation (DESIGN.md section 6).",
    "C05": "Combinator semantics vs. eager Python is a pure function of (expression tree, dictionary); nothing to schedule or to fault (DESIGN.md section 6).",
    "C09": "Template substitution and its key report are pure functions of (template, parameters, dictionary); the cache-key consequence is reached under C01 (DESIGN.md section 6).",
    "C11": "A relation between the pure functions explain/keys/validate on one (graph, dictionary); no history, fault or interleaving in it (DESIGN.md section 6).",
    "C13": "Pipeline associativity/identity and helper operand order are algebraic laws over pure values (DESIGN.md section 6).",
    "C19": "Dataset-class instantiation, equality and repr are pure functions of (class, dictionaries) (DESIGN.md section 6).",
}

checks, na, engines = [], [], {}
for pid in ALL:
    if pid in NA_PURE:
        na.append({"property_id": pid, "reason": NA_PURE[pid]})
        continue
    path = os.path.join(HERE, "labsim", "props", pid.lower() + ".py")
    if not os.path.exists(path):
        na.append({"property_id": pid, "reason": "claimed in DESIGN.md but its check is not built yet in this tree; not claimed until it is"})
        continue
    P = getattr(importlib.import_module(f"labsim.props.{pid.lower()}"), pid)
    engines.setdefault(P.ENGINE, []).append(pid)
    checks.append({
        "property_id": pid,
        "quick_cmd": f"./check {pid} --tier quick",
        "thorough_cmd": f"./check {pid} --tier thorough",
        "evidence_file": f"/verif/evidence/{pid}.json",
        "replay_cmd_template": f"./check {pid} --replay {{path}}",
        "engine": P.ENGINE,
        "level_claimed": {"category": P.LEVEL, "text": P.LEVEL_TEXT, "design_ref": P.DESIGN_REF},
        "level_note": P.LEVEL_NOTE,
        "technique": P.TECHNIQUE,
    })

hooks_commits = subprocess.run(["git", "-C", "/repo", "log", "--format=%H %s", "--grep=^hook:"], capture_output=True, text=True).stdout.split("\n")
manifest = {
    "version": 1,
    "setup_cmd": "true",
    "hooks": {
        "guard": "LABREA_VERIF",
        "enable": "no source hook is needed: the simulator uses seams labrea already has (Cache ABC, request runtime, decorator arguments, module attributes); ./check sets LABREA_VERIF=1 and PYTHONPATH=/repo so the current working tree is what runs",
        "baseline_off_cmd": "cd /repo && /venv/bin/python -m pytest -ra -q -p no:cacheprovider --timeout=900 --continue-on-collection-errors",
        "source_commits": [l.split()[0] for l in hooks_commits if l.strip()],
        "add_only": True,
    },
    "engines": [
        {"name": name, "path": "/verif/labsim", "serves_properties": props,
         "kind_free_text": {
             "history-sim": "deterministic simulation of generated operation histories against one long-lived instance of a generated labrea program (warm world) compared op by op with freshly built twins (cold), with fault plans for user callables and scripted faulty cache backends; seeded search + delta-debugging minimisation + replay files",
             "runtime-sim": "deterministic simulation of enter/exit/raise/derive/register/run histories of the effect-handler runtime against a per-thread stack model",
             "thread-sim": "real threads released one at a time by a seeded baton scheduler; pre-emption at sys.settrace line/opcode events inside labrea; simulated locks; interval-linearizability oracles",
         }.get(name, name)}
        for name, props in engines.items()
    ],
    "checks": checks,
    "not_applicable": na,
    "notes": "All checks: `./check <ID> [--tier quick|thorough] [--replay file]`; exit 0 held / 1 VIOLATION / 2 harness error. VERIF_SEED selects the seed (run i uses sha256(ID:VERIF_SEED:i)). Known findings: /verif/known_findings.json; regression corpus of repaired defects: /verif/corpus/<ID>/. Determinism/sensitivity self-tests: `./check selftest`.",
}
with open(os.path.join(HERE, "MANIFEST.json"), "w") as f:
    json.dump(manifest, f, indent=1)
print("claimed:", [c["property_id"] for c in checks], "n/a:", [n["property_id"] for n in na])
